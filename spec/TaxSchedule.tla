---------------------------- MODULE TaxSchedule ----------------------------
(***************************************************************************)
(* C07: the income tax on a taxable amount follows the year's statutory    *)
(* rate schedule.                                                          *)
(*                                                                         *)
(* The oracle is written from the Revenue Procedures (2020-45 for 2021,    *)
(* 2021-45 for 2022, 2022-38 for 2023), NOT from the program's hand-entered*)
(* tables: upper ends of the 10/12/22/24/32/35 % brackets per status.      *)
(* Below $100,000 the IRS Tax Table applies: rows [0,5) [5,15) [15,25),    *)
(* then 25 wide up to 3,000 and 50 wide up to 100,000; the entry is the    *)
(* bracket tax at the row's midpoint rounded half-up to whole dollars.     *)
(* At or above $100,000 the exact bracket formula applies.                 *)
(*                                                                         *)
(* Observations of the real figure_tax() (JSON, HV_TAX_FILE):              *)
(*   small : Seq of [y, s, x (income in cents < 10^7), t (tax in cents,    *)
(*           or -1 when the function raised)]                              *)
(*   big   : Seq of [y, s, x (limbs, cents), t (limbs, cents), ok]         *)
(* statuses: 1 Single, 2 MFJ, 3 MFS, 4 HoH, 5 QSS                          *)
(***************************************************************************)
EXTENDS Big, TLC, Json, IOUtils, FiniteSets

Rates == <<10, 12, 22, 24, 32, 35, 37>>

(* upper ends, in dollars, of the first six brackets: Single, MFJ, MFS, HoH *)
Ends ==
  [y \in {2021, 2022, 2023} |->
     CASE y = 2021 -> << <<9950, 40525, 86375, 164925, 209425, 523600>>,
                         <<19900, 81050, 172750, 329850, 418850, 628300>>,
                         <<9950, 40525, 86375, 164925, 209425, 314150>>,
                         <<14200, 54200, 86350, 164900, 209400, 523600>> >>
       [] y = 2022 -> << <<10275, 41775, 89075, 170050, 215950, 539900>>,
                         <<20550, 83550, 178150, 340100, 431900, 647850>>,
                         <<10275, 41775, 89075, 170050, 215950, 323925>>,
                         <<14650, 55900, 89050, 170050, 215950, 539900>> >>
       [] y = 2023 -> << <<11000, 44725, 95375, 182100, 231250, 578125>>,
                         <<22000, 89450, 190750, 364200, 462500, 693750>>,
                         <<11000, 44725, 95375, 182100, 231250, 346875>>,
                         <<15700, 59850, 95350, 182100, 231250, 578100>> >>]

Column(s) == IF s = 5 THEN 2 ELSE s          \* qualifying surviving spouse uses the joint schedule
EndsOf(y, s) == Ends[y][Column(s)]

(* internal consistency of the transcription: MFJ = 2 x Single up to the 32 % bracket, MFS = Single up to 35 % *)
OracleConsistent ==
  \A y \in {2021, 2022, 2023} :
     /\ \A k \in 1..5 : Ends[y][2][k] = 2 * Ends[y][1][k]
     /\ \A k \in 1..5 : Ends[y][3][k] = Ends[y][1][k]
     /\ Ends[y][3][6] * 2 = Ends[y][2][6]
     /\ \A c \in 1..4 : \A k \in 1..5 : Ends[y][c][k] < Ends[y][c][k + 1]

(***************************************************************************)
(* small incomes (32-bit arithmetic): x in cents, result in 1/100 cent     *)
(***************************************************************************)
Lo(e, k) == IF k = 1 THEN 0 ELSE e[k - 1] * 100
PortionInt(e, k, x) ==
  LET lo == Lo(e, k)
      hi == IF k = 7 THEN x ELSE (IF x < e[k] * 100 THEN x ELSE e[k] * 100)
  IN IF hi > lo THEN hi - lo ELSE 0

RECURSIVE SumInt(_, _, _)
SumInt(e, x, k) == IF k = 0 THEN 0 ELSE Rates[k] * PortionInt(e, k, x) + SumInt(e, x, k - 1)
BracketTaxInt(y, s, x) == SumInt(EndsOf(y, s), x, 7)          \* centi-cents, x < 10^7 cents

(* the table row of an income (in cents) below $100,000: <<lo, hi>> in cents *)
RowOf(x) ==
  IF x < 500 THEN <<0, 500>>
  ELSE IF x < 1500 THEN <<500, 1500>>
  ELSE IF x < 2500 THEN <<1500, 2500>>
  ELSE IF x < 300000 THEN <<2500 * (x \div 2500), 2500 * (x \div 2500) + 2500>>
  ELSE <<5000 * (x \div 5000), 5000 * (x \div 5000) + 5000>>

TableTax(y, s, x) ==       \* dollars
  LET r == RowOf(x) mid == (r[1] + r[2]) \div 2 IN (BracketTaxInt(y, s, mid) + 5000) \div 10000

(***************************************************************************)
(* large incomes (limb arithmetic): x in cents, result in 1/100 cent       *)
(***************************************************************************)
PortionBig(e, k, x) ==
  LET lo == FromInt(Lo(e, k))
      hi == IF k = 7 THEN x ELSE Min(x, FromInt(e[k] * 100))
  IN IF Lt(lo, hi) THEN Sub(hi, lo) ELSE Zero

RECURSIVE SumBig(_, _, _)
SumBig(e, x, k) == IF k = 0 THEN Zero ELSE Add(MulSmall(PortionBig(e, k, x), Rates[k]), SumBig(e, x, k - 1))
BracketTaxBig(y, s, x) == SumBig(EndsOf(y, s), x, 7)

(***************************************************************************)
(* judging the observations                                                *)
(***************************************************************************)
Obs == TLCEval(JsonDeserialize(IOEnv.HV_TAX_FILE))

JudgeSmall(o) ==
  IF o.t < 0 THEN "undefined (the function raised)"
  ELSE IF o.t # TableTax(o.y, o.s, o.x) * 100 THEN "differs from the rate schedule at the row midpoint: expected " \o ToString(TableTax(o.y, o.s, o.x))
  ELSE ""

(* observed cents t against exact centi-cents: |100 t - exact| <= tol centi-cents *)
JudgeBig(o) ==
  IF ~o.ok THEN "undefined (the function raised)"
  ELSE LET x == FromLimbs(o.x)
           exact == BracketTaxBig(o.y, o.s, x)
           got == MulSmall(FromLimbs(o.t), 100)
       IN IF Le(AbsDiff(got, exact), FromInt(o.tol)) THEN "" ELSE "differs from the exact bracket formula"

VARIABLE k
Init == k = 0
NS == Len(Obs.small)
NB == Len(Obs.big)
Next == /\ k < NS + NB /\ k' = k + 1
        /\ IF k < NS
           THEN LET m == JudgeSmall(Obs.small[k + 1]) IN m = "" \/ PrintT("C07|small|" \o ToString(k + 1) \o "|" \o m \o "|")
           ELSE LET m == JudgeBig(Obs.big[k + 1 - NS]) IN m = "" \/ PrintT("C07|big|" \o ToString(k + 1 - NS) \o "|" \o m \o "|")
Spec == Init /\ [][Next]_k

(* consequences, checked on the oracle itself over all table rows (sanity of the transcription) *)
RowStarts == {0, 500, 1500} \cup {2500 * j : j \in 1..119} \cup {5000 * j : j \in 60..1999}
TableMonotone ==
  \A y \in {2021, 2022, 2023}, s \in 1..4 : \A a \in RowStarts :
      LET nxt == RowOf(a)[2] IN nxt >= 10000000 \/ TableTax(y, s, a) <= TableTax(y, s, nxt)
QSSisMFJ == \A y \in {2021, 2022, 2023} : \A a \in RowStarts : TableTax(y, 5, a) = TableTax(y, 2, a)
ASSUME OracleConsistent /\ TableMonotone /\ QSSisMFJ
=============================================================================
