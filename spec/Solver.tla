------------------------------- MODULE Solver -------------------------------
(***************************************************************************)
(* Design model of habutax's dependency solver running abstract form       *)
(* programs.  One behaviour = one call of Solver.solve() on one program,   *)
(* one initial input file, one user (who answers, refuses, or whose input  *)
(* ends) and ONE ATTEMPT ORDER: with DetSched = FALSE every choice point   *)
(* of the implementation (which queued line is tried next, in which order  *)
(* released waiters are retried, in which order missing inputs are asked)  *)
(* is nondeterministic, so TLC visits every schedule.                      *)
(***************************************************************************)
EXTENDS Denote

CONSTANTS Programs,      \* Seq of program records (generated module)
          DetSched,      \* TRUE: the implementation's own order
          EnvRefuse, EnvEof, EnvBadAnswer,   \* what the user may do at a prompt
          EnvBadFile,    \* the input file may hold invalid text
          Ghost          \* maintain the work counters (bigger state space)

VARIABLES s,   \* solver state (SolverCore)
          p,   \* index of the program being run
          g    \* ghost bookkeeping (work counters, initial file)

vars == <<s, p, g>>

P == Programs[p]
C == P.cat

Vals == IF EnvBadFile THEN {0, 1, BadVal} ELSE {0, 1}

PartialFns(S, T) == UNION {[D -> T] : D \in SUBSET S}

ZeroOn(S) == [x \in S |-> 0]

Init ==
  /\ p \in 1..Len(Programs)
  /\ \E c \in PartialFns(Programs[p].inputs, Vals), hp \in BOOLEAN :
        /\ s = InitSolver(c, <<>>, {}, hp)
        /\ g = [cfg0 |-> c, evals |-> ZeroOn(Programs[p].lines), enq |-> ZeroOn(Programs[p].lines),
                loads |-> ZeroOn(Programs[p].lines), asks |-> ZeroOn(Programs[p].inputs),
                waited |-> [l \in Programs[p].lines |-> <<>>], asked |-> <<>>]

(***************************************************************************)
(* ghost updates                                                           *)
(***************************************************************************)
CountIn(q, x) == Cardinality({i \in 1..Len(q) : q[i] = x})

(* number of value() calls of one attempt = 1 + number of spec loads *)
RECURSIVE LoadsOf(_, _)
LoadsOf(st, l) ==
  LET r == Eval(P.body[l], 0, {}, st.cfg, st.vals, st.specs, st.forms) IN
  IF r.o = "nospec"
  THEN LET s2 == LoadSpec(st, C, r.n) IN IF Aborted(s2) THEN 1 ELSE 1 + LoadsOf(s2, l)
  ELSE 0

GhostAttempt(st, st2, l) ==
  IF ~Ghost THEN g ELSE
  LET k == LoadsOf(st, l)
      newq == [x \in P.lines |-> CountIn(st2.queue, x) - CountIn(st.queue, x)]
      wf == {d \in DOMAIN st2.fdU : Len(st2.fdU[d]) > (IF d \in DOMAIN st.fdU THEN Len(st.fdU[d]) ELSE 0)}
      wi == {d \in DOMAIN st2.idU : Len(st2.idU[d]) > (IF d \in DOMAIN st.idU THEN Len(st.idU[d]) ELSE 0)}
      w  == wf \cup wi
  IN [g EXCEPT !.evals[l] = @ + 1 + k, !.loads[l] = @ + k,
               !.enq = [x \in P.lines |-> @[x] + (IF newq[x] > 0 THEN newq[x] ELSE 0)],
               !.waited[l] = IF w = {} THEN @ ELSE Append(@, CHOOSE d \in w : TRUE)]

(***************************************************************************)
(* actions                                                                 *)
(***************************************************************************)
Start ==
  /\ s.pc = "start"
  /\ s' = StartStep(s, C, P.request, P.fieldNames)
  /\ g' = IF Ghost THEN [g EXCEPT !.enq = [x \in P.lines |-> CountIn(s'.queue, x)]] ELSE g
  /\ UNCHANGED p

Silent ==
  /\ SilentEnabled(s)
  /\ s' = SilentStep(s, C)
  /\ UNCHANGED <<p, g>>

AttemptAt(st, l) == AttemptProg(st, C, P.body, l)

Pop ==
  /\ s.pc = "pop" /\ s.queue # <<>>
  /\ \E k \in (IF DetSched THEN {Len(s.queue)} ELSE 1..Len(s.queue)) :
        LET l  == s.queue[k]
            st == [s EXCEPT !.queue = RemoveAt(@, k)]
        IN /\ s' = AttemptAt(st, l)
           /\ g' = GhostAttempt(st, s', l)
  /\ UNCHANGED p

FDrain ==
  /\ s.pc = "fdrain"
  /\ s' = FDrainStep(s, C)
  /\ UNCHANGED <<p, g>>

BufAttempt(phase) ==
  /\ s.pc = phase /\ s.buf # <<>>
  /\ \E k \in (IF DetSched THEN {1} ELSE 1..Len(s.buf)) :
        LET l  == s.buf[k]
            st == [s EXCEPT !.buf = RemoveAt(@, k)]
        IN /\ s' = AttemptAt(st, l)
           /\ g' = GhostAttempt(st, s', l)
  /\ UNCHANGED p

FAttempt == BufAttempt("fattempt")
IAttempt == BufAttempt("iattempt")

IDrain ==
  /\ s.pc = "idrain"
  /\ s' = IDrainStep(s)
  /\ UNCHANGED <<p, g>>

(* the user at a prompt.  With DetSched = FALSE the order of the prompt    *)
(* list is also free (the hook permutes it).                               *)
Ask ==
  /\ s.pc = "ask" /\ s.askList # <<>>
  /\ \E k \in (IF DetSched THEN {1} ELSE 1..Len(s.askList)) :
       LET i  == s.askList[k]
           st == [s EXCEPT !.askList = <<i>> \o RemoveAt(@, k)]
       IN /\ \/ \E v \in {0, 1} : s' = AskAnswer(st, i, v)
             \/ EnvRefuse /\ s' = AskRefuse(st)
             \/ EnvEof /\ s' = Abort(st, "eof")
             \/ EnvBadAnswer /\ s' = Abort(st, "assert")    \* assert missing.valid(value)
          /\ g' = IF Ghost THEN [g EXCEPT !.asks[i] = @ + 1, !.asked = Append(@, [i |-> i, by |-> s.idU[i]])] ELSE g
  /\ UNCHANGED p

Finish ==
  /\ s.pc = "finish"
  /\ s' = FinishStep(s)
  /\ UNCHANGED <<p, g>>

Next == Start \/ Silent \/ Pop \/ FDrain \/ FAttempt \/ Ask \/ IDrain \/ IAttempt \/ Finish

Spec == Init /\ [][Next]_vars /\ WF_vars(Next)

Done == s.pc = "done"

(***************************************************************************)
(* C01  no silent success                                                  *)
(***************************************************************************)
NoSilentSuccess == NoSilentSuccessP(s)
FailureIsNamed == FailureIsNamedP(s)

TerminalShape == s.pc = "abort" => s.abort \in {"unsupported", "assert", "recursion", "raise", "invalid", "keyerror", "eof"}

(***************************************************************************)
(* C03  fixed point                                                        *)
(***************************************************************************)
FinalEval(l) == Eval(P.body[l], 0, {}, s.cfg, s.vals, s.specs, s.forms)

FixedPoint ==
  Terminal(s) => \A l \in DOMAIN s.vals : FinalEval(l).o = "val" /\ FinalEval(l).v = s.vals[l]

(* write-once and inputs only added, as action properties *)
WriteOnce ==
  [][\A l \in DOMAIN s.vals : l \in DOMAIN s'.vals /\ s'.vals[l] = s.vals[l]]_vars
InputsOnlyAdded ==
  [][\A i \in DOMAIN s.cfg : i \in DOMAIN s'.cfg /\ s'.cfg[i] = s.cfg[i]]_vars

(***************************************************************************)
(* C04  demand closure, stated directly on the terminal state              *)
(***************************************************************************)
LineReads(l) == {x[1] : x \in {y \in FinalEval(l).rd : y[1] \in P.lines}}

ClosureComplete ==
  (Done /\ s.solved) =>
      /\ \A f \in s.forms : Range(C.req[f]) \subseteq DOMAIN s.vals
      /\ \A l \in DOMAIN s.vals : LineReads(l) \subseteq DOMAIN s.vals
      /\ \A l \in DOMAIN s.vals : C.formOf[l] \in s.forms

StopsAt(l) == IF FinalEval(l).o = "nofield" THEN {FinalEval(l).n} ELSE {}

ClosureSound ==
  Done =>
      /\ \A l \in DOMAIN s.vals :
            \/ \E f \in s.forms : l \in Range(C.req[f])
            \/ l \in Range(P.fieldNames)
            \/ \E l2 \in s.solving : l \in LineReads(l2)
      /\ \A f \in s.forms :
            \/ f \in Range(P.request)
            \/ \E l2 \in s.solving : C.formOf[l2] # f /\
                   \E n \in LineReads(l2) \cup StopsAt(l2) : n \in C.lines[f]
      /\ s.solving \subseteq UNION {C.lines[f] : f \in s.forms}

(***************************************************************************)
(* C04/C05  the terminal state is the denotation of (program, final inputs)*)
(***************************************************************************)
Den == Denotation(P, s.cfg)

EqualsDenotation ==
  /\ Done =>
       /\ ~Den.start /\ Den.ab = {}
       /\ s.vals = Den.V
       /\ s.forms = Den.F
       /\ s.solving = Den.D
       /\ Range(s.unimpl) = Den.un
       /\ DOMAIN s.idU = Den.mi
       /\ DOMAIN s.fdU = Den.bl
       /\ \A i \in DOMAIN s.idU : Range(s.idU[i]) = Den.waitI[i]
       /\ \A d \in DOMAIN s.fdU : Range(s.fdU[d]) = Den.waitF[d]
       /\ s.solved = Den.solved

(* aborts as a class: an evaluation abort only happens if the denotation has one *)
AbortIsDenoted ==
  (s.pc = "abort" /\ s.abort \in {"unsupported", "recursion", "raise", "invalid", "keyerror"}) => s.abort \in Den.ab

DoneMeansNoAbort == Done => (~Den.start /\ Den.ab = {})

(***************************************************************************)
(* C13  prompting is demand-exact                                          *)
(***************************************************************************)
AskOnlyDemandedMissing ==
  s.pc = "ask" => \A k \in 1..Len(s.askList) :
      LET i == s.askList[k] IN
      /\ i \notin DOMAIN s.cfg
      /\ i \in DOMAIN s.idU /\ s.idU[i] # <<>>
      /\ \A m \in 1..Len(s.idU[i]) :                  \* needed_by: lines that really stop at i now
            LET r == FinalEval(s.idU[i][m]) IN r.o = "noinput" /\ r.n = i

NoAskAfterRefusal == [][s.refused => (s'.refused /\ s'.cfg = s.cfg)]_vars

(* success does not depend on inputs that no evaluated line read *)
InputReads == UNION {{x[1] : x \in {y \in FinalEval(l).rd : y[1] \in P.inputs}} : l \in DOMAIN s.vals}
UnreadNotRequired ==
  (Done /\ s.solved) => Denotation(P, [i \in InputReads |-> s.cfg[i]]).solved

(***************************************************************************)
(* C06  bounded work, no orphan                                            *)
(***************************************************************************)
Distinct(q) == Cardinality(Range(q))

AskAtMostOnce == Ghost => \A i \in P.inputs : g.asks[i] <= 1

EvalBound ==
  Ghost => \A l \in P.lines :
      g.evals[l] <= g.enq[l] * (1 + Distinct(g.waited[l])) + g.loads[l]

(* how often a line may legitimately be scheduled: once per request of its form, once if requested explicitly, once on     *)
(* first demand, and once more when its form is discovered through this very (required) line                             *)
Sched(l) == 2 + CountIn(P.request, C.formOf[l]) + CountIn(P.fieldNames, l)
EnqBound == Ghost /\ s.pc # "abort" => \A l \in P.lines : g.enq[l] <= Sched(l)

LoadBound == Ghost => \A l \in P.lines : g.loads[l] <= Cardinality(DOMAIN C.base)

NoRepeatWait ==
  Ghost => \A l \in P.lines : \A d \in Range(g.waited[l]) : CountIn(g.waited[l], d) <= g.enq[l]

(* every registered wait is either still registered or was released after its dependency was met *)
NoLostWaiter == NoLostWaiterP(s)
NoEarlyRelease == NoEarlyReleaseP(s)

Terminates == <>(Terminal(s))

(***************************************************************************)
(* type / shape invariant                                                  *)
(***************************************************************************)
TypeOK ==
  /\ s.pc \in {"start", "test", "pop", "fdrain", "fattempt", "asksnap", "ask", "idrain", "iattempt", "finish", "done", "abort"}
  /\ s.solving \subseteq s.fmap \cup Range(P.fieldNames)
  /\ \A d \in DOMAIN s.fdU : s.fdU[d] # <<>>
  /\ \A d \in DOMAIN s.idU : s.idU[d] # <<>>
  /\ \A k \in 1..(Len(s.queue) - 1) : C.rank[s.queue[k]] <= C.rank[s.queue[k + 1]]

(* queue members are being solved; nothing is queued that already failed *)
QueueSolving == \A k \in 1..Len(s.queue) : s.queue[k] \in s.solving

View == <<s, p>>
=============================================================================
