----------------------------- MODULE Catalogue -----------------------------
(***************************************************************************)
(* C10: every name a form definition can refer to resolves.                *)
(*                                                                         *)
(* Facts (JSON, HV_FACTS_FILE) are extracted from the current tree by      *)
(* forced execution of every line definition along all syntactic paths     *)
(* (harness/pathexplore.py):                                               *)
(*   cat   : the year's catalogue record (as in SolverCore)                *)
(*   refs  : Seq of [form, line, kind ("in" | "ln" | "form"), name]        *)
(*   excs  : Seq of [form, line, cls, msg]  exceptions other than the      *)
(*           not-implemented signal that a path ran into                   *)
(* TLC runs the solver's own RESOLUTION PROTOCOL (SolverCore) on every     *)
(* reference from the state "owning form added" and classifies the end     *)
(* state.  A reference may only end resolved, or in the abort              *)
(* "unsupported" for a form that is deliberately absent.                   *)
(***************************************************************************)
EXTENDS SolverCore, Json, IOUtils

Facts == TLCEval(JsonDeserialize(IOEnv.HV_FACTS_FILE))

SeqToSet(q) == {q[k] : k \in 1..Len(q)}

DeliberatelyAbsent == {"1040_s2", "1099-oid"}      \* frozen: forms the program knowingly does not ship

C == TLCEval(
  [known  |-> SeqToSet(Facts.cat.known),
   base   |-> Facts.cat.base,
   formOf |-> Facts.cat.formOf,
   lines  |-> [f \in DOMAIN Facts.cat.lines |-> SeqToSet(Facts.cat.lines[f])],
   req    |-> Facts.cat.req,
   inps   |-> [f \in DOMAIN Facts.cat.inps |-> SeqToSet(Facts.cat.inps[f])],
   rank   |-> Facts.cat.rank])

Owned(owner) == AddForm(InitSolver(<<>>, <<>>, {}, FALSE), C, owner)

Resolve(r) ==
  IF r.malformed THEN "malformed name (not exactly one dot)"
  ELSE
  LET st == Owned(r.form) IN
  CASE r.kind = "ln" ->
         LET e == ApplyFinal(st, C, r.form \o "." \o r.line, [o |-> "nofield", n |-> r.name]) IN
         IF ~Aborted(e) THEN ""
         ELSE IF e.abort = "unsupported" /\ C.base[C.formOf[r.name]] \in DeliberatelyAbsent THEN ""
         ELSE IF e.abort = "unsupported" THEN "line of a form that is neither catalogued nor deliberately absent"
         ELSE "line does not exist in its form: the solver's internal assertion fires"
    [] r.kind = "in" ->
         IF r.name \in st.specs THEN ""
         ELSE LET e == LoadSpec(st, C, r.name) IN
              IF ~Aborted(e) THEN ""
              ELSE IF e.abort = "unsupported" /\ C.base[C.formOf[r.name]] \in DeliberatelyAbsent THEN ""
              ELSE IF e.abort = "unsupported" THEN "input of a form that is neither catalogued nor deliberately absent"
              ELSE "input is not declared by its form: unbounded recursion"
    [] r.kind = "form" ->
         IF KnownForm(C, r.name) THEN "" ELSE "s.form() of a form that is not catalogued: KeyError"
    [] OTHER -> "unknown reference kind"

Reportable == {"AttributeError", "NameError", "KeyError", "UnboundLocalError", "ImportError", "ModuleNotFoundError",
               "ThresholdAssertion", "ForeignNotImplemented", "RuntimeError", "NotImplementedError"}

(***************************************************************************)
(* Beyond the listed properties: the MAY-dependency graph of the shipped   *)
(* forms (line -> lines some path of it reads).  Peeling lines whose       *)
(* dependencies are all peeled leaves exactly the lines on or behind a     *)
(* reference cycle; an empty core means every demanded line can eventually *)
(* be evaluated (no structural deadlock).  Reported as evidence only.      *)
(***************************************************************************)
Deps == Facts.deps                       \* [line -> Seq of lines]
RECURSIVE Peel(_)
Peel(S) == LET R == {n \in S : \A j \in 1..Len(Deps[n]) : Deps[n][j] \notin S} IN IF R = {} THEN S ELSE Peel(S \ R)
CycleCore == Peel(DOMAIN Deps)

VARIABLE k
Init == k = 0
Next == /\ k < Len(Facts.refs) + Len(Facts.excs) /\ k' = k + 1
        /\ (k > 0 \/ PrintT("C10|core|0|" \o ToString(CycleCore) \o "|"))
        /\ IF k < Len(Facts.refs)
           THEN LET r == Facts.refs[k + 1] m == Resolve(r) IN
                m = "" \/ PrintT("C10|ref|" \o ToString(k + 1) \o "|" \o m \o "|")
           ELSE LET x == Facts.excs[k + 1 - Len(Facts.refs)] IN
                x.cls \notin Reportable \/ PrintT("C10|exc|" \o ToString(k + 1 - Len(Facts.refs)) \o "|" \o x.cls \o "|")
Spec == Init /\ [][Next]_k
=============================================================================
