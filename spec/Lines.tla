------------------------------- MODULE Lines -------------------------------
(***************************************************************************)
(* C02: every computed line equals what the official form instructs.       *)
(*                                                                         *)
(* Equations (HV_LINES_FILE.eqs) are DATA: generated at check time from    *)
(* the instruction text printed in the bundled official templates (IRS     *)
(* XFA accessibility text; harness/linegen.py) and, where the templates do *)
(* not carry the rule (worksheets, NC forms, look-ups by filing status),   *)
(* from the cited transcription data/hand_lines.json.  Solutions           *)
(* (HV_LINES_FILE.sols) are the stored, already rounded lines of explored  *)
(* real returns in integer cents (counts and booleans as integers, ratio   *)
(* lines in 1/100000).  Each equation instance is evaluated on the lines   *)
(* of ONE solution; an instance whose operands are not all present is      *)
(* skipped (counted by the harness).                                       *)
(*                                                                         *)
(*  eq : [eid, op, line, args (Seq of names), src, floor, cap0, num, den,  *)
(*        k, tol (cents), consts (Seq of 5, by status), cond (name or ""), *)
(*        condis (0/1)]                                                    *)
(*  inst : Seq of [sol (index), eq (index)]   the instances to evaluate    *)
(***************************************************************************)
EXTENDS Integers, Sequences, FiniteSets, TLC, Json, IOUtils

F == TLCEval(JsonDeserialize(IOEnv.HV_LINES_FILE))

Abs(x) == IF x < 0 THEN 0 - x ELSE x
Max(a, b) == IF a > b THEN a ELSE b
Min(a, b) == IF a < b THEN a ELSE b
Near(a, b, tol) == Abs(a - b) <= tol

RECURSIVE Sum(_, _)
Sum(S, names) == IF names = <<>> THEN 0 ELSE S[Head(names)] + Sum(S, Tail(names))

(* a * num / den without leaving 32 bits (a < 2^31, num <= 1000, den >= 100) *)
MulDiv(a, num, den) == (a \div den) * num + (((a % den) * num) \div den)

(* a * r / 100000 for a ratio r in 0..100000 (five decimal places), exactly, inside 32 bits (|a| below 10^9):            *)
(* a = qa * 10^5 + ra,  ra = ra1 * 1000 + ra0,  ra * r = X * 1000 + Y  with X = ra1 * r, Y = ra0 * r                      *)
MulRatioPos(a, r) ==
  LET qa == a \div 100000  ra == a % 100000
      X == (ra \div 1000) * r  Y == (ra % 1000) * r
  IN qa * r + (X \div 100) + (((X % 100) * 1000 + Y) \div 100000)
MulRatio(a, r) == IF a >= 0 THEN MulRatioPos(a, r) ELSE 0 - MulRatioPos(0 - a, r)

Holds(e, S, R, status) ==
  LET v == S[e.line] IN
  CASE e.op = "add" -> LET t == Sum(S, e.args) IN
                         IF e.floor THEN Near(v, Max(0, t), e.tol)
                         ELSE IF e.cap0 THEN Near(v, Min(0, t), e.tol)
                         ELSE Near(v, t, e.tol)
    [] e.op = "sub" -> LET t == S[e.args[2]] - S[e.args[1]] IN
                         IF e.floor THEN Near(v, Max(0, t), e.tol)
                         ELSE Near(v, t, e.tol) \/ (t <= 0 /\ v = 0)       \* "subtract ... (only if more)": blank when there is nothing
    [] e.op = "subx" -> Near(v, S[e.args[2]] - S[e.args[1]], e.tol)
    [] e.op = "mul" -> IF e.floor THEN Near(v, Max(0, MulDiv(S[e.args[1]], e.num, e.den)), e.tol + 1)
                       ELSE Near(v, MulDiv(S[e.args[1]], e.num, e.den), e.tol + 1)
    [] e.op = "mulk" -> v = S[e.args[1]] * e.k            \* the count is held in hundredths like every line
    [] e.op = "mulcnt" -> Near(v, MulDiv(S[e.args[2]], S[e.args[1]], 100), e.tol)       \* count (in hundredths) x amount
    [] e.op = "mull" -> Near(v, MulRatio(S[e.args[1]], R[e.args[2]]), e.tol + 1)
    [] e.op = "min" -> Near(v, Min(S[e.args[1]], S[e.args[2]]), e.tol)
    [] e.op = "max" -> Near(v, Max(S[e.args[1]], S[e.args[2]]), e.tol)
    [] e.op = "same" -> Near(v, S[e.args[1]], e.tol)
    [] e.op = "carry" -> Near(v, S[e.src], e.tol)
    [] e.op = "carry0" -> v = 0                                             \* the source form takes no part
    [] e.op = "const" -> v = e.consts[status] * 100
    [] e.op = "minconst" -> Near(v, Min(S[e.args[1]], e.consts[status] * 100), e.tol)
    [] e.op = "ceil1000" -> LET t == S[e.args[2]] - S[e.args[1]] IN
                              IF t <= 0 THEN v = 0 ELSE v = ((t + 99999) \div 100000) * 100000
    [] e.op = "max0sub" -> Near(v, Max(0, S[e.args[2]] - S[e.args[1]]), e.tol)
    [] e.op = "zero" -> v = 0            \* a line for an amount the program does not support (the return stops when there is one) or a part not filled in
    (* "Divide line A by line B; enter the result as a decimal rounded to at least three places; 1.000 if it is 1.000 or more": the stored   *)
    (* ratio r (in 1/100000) must be the capped quotient: B * r is A up to the rounding of r.  Not judged when B is not positive.            *)
    [] e.op = "ratio" -> LET a == S[e.args[1]]  b == S[e.args[2]]  r == R[e.line] IN
                           IF b <= 0 \/ a < 0 THEN TRUE
                           ELSE IF a >= b THEN r = 100000
                           ELSE r >= 0 /\ r <= 100000 /\ Abs(MulRatio(b, r) - a) <= (b \div 100000) + 2
    (* N.C. child deduction worksheet line 4 (D-400 instructions, "Child Deduction" table): by filing status and federal AGI (line 2).  *)
    (* Bands of e.k dollars width start above e.num dollars for the status group; each band lowers the deduction by $500 from e.den.   *)
    (* consts: per status, the group's first band limit in dollars (0 = the status has no column)                                      *)
    [] e.op = "ncchild" -> LET agi == S[e.args[1]]
                               base == e.consts[status] * 100
                               step == (base \div 2)                       \* each group's bands are half of its first limit wide
                               band == IF agi <= base THEN 0 ELSE ((agi - base) + step - 1) \div step
                           IN base > 0 => v = Max(0, e.den * 100 - 50000 * band)
    [] e.op = "absent" -> FALSE          \* the instruction sends this line to a worksheet that the solution does not contain
    (* 2021 Recovery Rebate Credit Worksheet line 6: $1,400; $2,800 on a joint return if question 2 or 3 was answered yes; nothing *)
    (* if the only qualifying social security numbers are those of dependents.  args = the worksheet's lines 2, 3, 4, 5         *)
    [] e.op = "rrc6" -> LET g(n) == IF n \in DOMAIN S THEN S[n] ELSE 0
                            joint == status = 2
                        IN v = (IF joint /\ (g(e.args[1]) = 1 \/ g(e.args[2]) = 1) THEN 280000
                                ELSE IF g(e.args[1]) = 0 /\ g(e.args[4]) > 0 /\ (~joint \/ (g(e.args[2]) = 0 /\ g(e.args[3]) = 0)) THEN 0
                                ELSE 140000)
    [] OTHER -> FALSE

CondOk(e, S) == e.cond = "" \/ (e.cond \in DOMAIN S /\ S[e.cond] = e.condis)

VARIABLE k
Init == k = 0
Next == /\ k < Len(F.inst) /\ k' = k + 1
        /\ LET i == F.inst[k + 1]
               e == F.eqs[i.eq]
               o == F.sols[i.sol]
           IN ~CondOk(e, o.S) \/ Holds(e, o.S, o.R, o.status) \/ PrintT("C02|" \o ToString(k + 1) \o "|")
Spec == Init /\ [][Next]_k
=============================================================================
