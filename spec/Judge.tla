------------------------------- MODULE Judge -------------------------------
(***************************************************************************)
(* The specification as an oracle for what a REAL solve of a generated     *)
(* program returned (terminal observations): each observation is judged    *)
(* against the schedule-free denotation of (program, final inputs), one    *)
(* formula per property, so that a rejection names the property.           *)
(*                                                                         *)
(* Observations (JSON, HV_OBS_FILE): [oid, prog (index into GenPrograms),  *)
(*   cfg0, cfg (final inputs, 0/1/2), abort, solved, vals, forms, unimpl,  *)
(*   missing, blocked, asks (Seq of [i, by]), evals ([line -> count]),     *)
(*   waits ([line -> Seq of names waited for]), loads ([line -> count]),   *)
(*   enq ([line -> count])]                                                *)
(***************************************************************************)
EXTENDS Denote, GenProgs, Json, IOUtils

Obs == TLCEval(JsonDeserialize(IOEnv.HV_OBS_FILE)).obs

SeqToSet(q) == {q[k] : k \in 1..Len(q)}
SetsOf(J) == [d \in DOMAIN J |-> SeqToSet(J[d])]

PromptAbort(o) == o.abort \in {"eof", "assert"} /\ o.promptAbort

J01(o, P, D) ==
  IF o.abort # "" THEN
       IF PromptAbort(o) THEN ""
       ELSE IF o.abort \in D.ab THEN "" ELSE "abort " \o o.abort \o " is not one the program can run into"
  ELSE IF D.start \/ D.ab # {} THEN "solve returned although an evaluation must abort"
  ELSE IF o.solved /\ ~D.solved THEN "SILENT SUCCESS: solved=True but a demanded line has no value"
  ELSE IF ~o.solved /\ D.solved THEN "solved=False although every demanded line has a value"
  ELSE IF o.solved /\ (o.unimpl # <<>> \/ DOMAIN o.missing # {} \/ DOMAIN o.blocked # {}) THEN "solved=True with diagnostics"
  ELSE IF SeqToSet(o.unimpl) # D.un THEN "unimplemented lines not named exactly"
  ELSE IF DOMAIN o.missing # D.mi THEN "missing inputs not named exactly"
  ELSE IF DOMAIN o.blocked # D.bl THEN "blocked lines not named exactly"
  ELSE ""

J03(o, P, D) ==
  IF \E l \in DOMAIN o.vals :
        LET r == Eval(P.body[l], 0, {}, o.cfg, o.vals, AllSpecs(P.cat), SeqToSet(o.forms)) IN
        ~(r.o = "val" /\ r.v = o.vals[l])
  THEN "a stored value is not what its definition yields on the final solution"
  ELSE ""

J04(o, P, D) ==
  IF o.abort # "" \/ D.start THEN ""
  ELSE IF DOMAIN o.vals # DOMAIN D.V THEN "lines in the solution differ from the demand closure"
  ELSE IF SeqToSet(o.forms) # D.F THEN "forms in the solution differ from the demand closure"
  ELSE ""

J05(o, P, D) ==
  IF o.abort # "" \/ D.start THEN ""
  ELSE IF o.vals # D.V THEN "values differ from the schedule-free denotation"
  ELSE IF o.solved # D.solved THEN "verdict differs from the schedule-free denotation"
  ELSE IF SeqToSet(o.forms) # D.F THEN "forms differ from the schedule-free denotation"
  ELSE IF SeqToSet(o.unimpl) # D.un \/ DOMAIN o.missing # D.mi \/ DOMAIN o.blocked # D.bl
       THEN "diagnostics differ from the schedule-free denotation"
  ELSE IF \E i \in DOMAIN o.missing : SeqToSet(o.missing[i]) # D.waitI[i] THEN "waiters of a missing input differ"
  ELSE IF \E d \in DOMAIN o.blocked : SeqToSet(o.blocked[d]) # D.waitF[d] THEN "waiters of a blocking line differ"
  ELSE ""

(* inputs as they were when prompt k was shown: the file plus the answers given before *)
RECURSIVE CfgAt(_, _)
CfgAt(o, k) == IF k = 1 THEN o.cfg0
               ELSE LET c == CfgAt(o, k - 1) a == o.asks[k - 1] IN
                    \* an answer that did not reach the store (a defect the checks must be able to report, not crash on) counts as value 2
                    IF a.supplied THEN Upd(c, a.i, IF a.i \in DOMAIN o.cfg THEN o.cfg[a.i] ELSE 2) ELSE c

ValInputReads(o, P) ==
  UNION {{x[1] : x \in {y \in Eval(P.body[l], 0, {}, o.cfg, o.vals, AllSpecs(P.cat), SeqToSet(o.forms)).rd : y[1] \in P.inputs}} : l \in DOMAIN o.vals}

J13(o, P, D) ==
  IF \E k \in 1..Len(o.asks) : o.asks[k].i \in DOMAIN CfgAt(o, k) THEN "asked for an input that was already supplied"
  ELSE IF \E k \in 1..Len(o.asks) : o.asks[k].by = <<>> THEN "asked for an input nobody needs"
  ELSE IF \E k \in 1..Len(o.asks) : \E m \in 1..Len(o.asks[k].by) :
             LET r == Eval(P.body[o.asks[k].by[m]], 0, {}, CfgAt(o, k), o.vals, AllSpecs(P.cat), SeqToSet(o.forms)) IN
             ~(r.o = "noinput" /\ r.n = o.asks[k].i)
       THEN "a line quoted as needing the input does not read it"
  ELSE IF \E k \in 1..Len(o.asks) : \E j \in 1..(k - 1) : ~o.asks[j].supplied THEN "asked again after a refusal"
  ELSE IF o.abort = "" /\ o.solved /\ ~D.start /\ D.ab = {} /\ D.solved /\
          ~Denotation(P, [i \in ValInputReads(o, P) |-> o.cfg[i]]).solved
       THEN "success depends on an input no line read"
  \* the other direction: the run stopped although every input that some line reads is supplied and valid -- what stopped it can only be
  \* the (invalid) value of an input that NO line reads, which is not required for success
  ELSE IF o.abort # "" /\ ~PromptAbort(o) /\ ~D.start /\ D.ab = {} /\ D.solved /\ (\E i \in DOMAIN o.cfg0 : o.cfg0[i] = 2)
       THEN "the run was stopped by the value of an input no line read"
  ELSE ""

Distinct(q) == Cardinality(SeqToSet(q))
CountIn(q, x) == Cardinality({k \in 1..Len(q) : q[k] = x})

J06(o, P, D) ==
  IF \E k \in 1..Len(o.asks) : \E j \in 1..(k - 1) : o.asks[j].i = o.asks[k].i THEN "an input was asked for twice"
  ELSE IF o.abort = "" /\ \E l \in DOMAIN o.evals : o.evals[l] > o.enq[l] * (1 + Distinct(o.waits[l])) + o.loads[l]
       THEN "a line was evaluated more often than scheduled + distinct waits + loads"
  ELSE IF o.abort = "" /\ \E l \in DOMAIN o.enq : o.enq[l] > 2 + CountIn(P.request, P.cat.formOf[l]) + CountIn(P.fieldNames, l)
       THEN "a line was scheduled more often than its form was requested (+ explicit request + first demand + discovery)"
  ELSE IF o.abort = "" /\ \E l \in DOMAIN o.waits : \E d \in SeqToSet(o.waits[l]) : CountIn(o.waits[l], d) > o.enq[l]
       THEN "a line waited twice for the same dependency"
  ELSE IF o.abort = "" /\ ~D.start /\ \E l \in D.D : ~(l \in DOMAIN o.vals \/ l \in SeqToSet(o.unimpl)
             \/ (\E i \in DOMAIN o.missing : l \in SeqToSet(o.missing[i]))
             \/ (\E d \in DOMAIN o.blocked : l \in SeqToSet(o.blocked[d])))
       THEN "a demanded line is neither valued nor waiting: a waiter was lost"
  ELSE IF o.abort = "" /\ \E d \in DOMAIN o.blocked : d \in DOMAIN o.vals THEN "a waiter was not released although its dependency is met"
  ELSE ""

VARIABLE k
JInit == k = 0
JNext == /\ k < Len(Obs)
         /\ k' = k + 1
         /\ LET o == Obs[k + 1]
                P == GenPrograms[o.prog]
                D == Denotation(P, o.cfg)
            IN PrintT("JUDGE|" \o ToString(o.oid) \o "|" \o J01(o, P, D) \o "|" \o J03(o, P, D) \o "|" \o J04(o, P, D)
                       \o "|" \o J05(o, P, D) \o "|" \o J06(o, P, D) \o "|" \o J13(o, P, D) \o "|")
JSpec == JInit /\ [][JNext]_k
=============================================================================
