----------------------------- MODULE FixedPoint -----------------------------
(***************************************************************************)
(* C03 on the shipped forms: every value of a returned solution (complete  *)
(* or partial) is what the line's own definition yields when it is         *)
(* evaluated once more against the final inputs and the other values of    *)
(* the same solution.  Facts (HV_FP_FILE): lines : Seq of [rid (return),   *)
(* line, stored, again] -- the two values as printed texts, or again =     *)
(* "raises:<class>" when the definition does not yield a value any more.   *)
(***************************************************************************)
EXTENDS Integers, Sequences, TLC, Json, IOUtils
L == TLCEval(JsonDeserialize(IOEnv.HV_FP_FILE)).lines
VARIABLE k
Init == k = 0
Next == /\ k < Len(L) /\ k' = k + 1
        /\ LET x == L[k + 1] IN x.stored = x.again \/ PrintT("FP|" \o ToString(k + 1) \o "|")
Spec == Init /\ [][Next]_k
=============================================================================
