----------------------------- MODULE PdfString -----------------------------
(***************************************************************************)
(* PDF literal strings (ISO 32000-1, 7.3.4.2) as the PDF tool reads them   *)
(* from a form-data (FDF) file: bytes between balanced parentheses;        *)
(* backslash escapes \n \r \t \b \f \( \) \\ ; \ddd octal; backslash +     *)
(* end-of-line is a continuation; a backslash before any other character   *)
(* is dropped; an unescaped end-of-line reads as LF.                       *)
(***************************************************************************)
EXTENDS Integers, Sequences

BS == 92  LP == 40  RP == 41  LF == 10  CR == 13
IsOct(c) == c >= 48 /\ c <= 55

Res(ok, val, nxt) == [ok |-> ok, val |-> val, nxt |-> nxt]

(* b: bytes, i: index of the byte after the opening parenthesis *)
RECURSIVE Lit(_, _, _, _)
Lit(b, i, d, acc) ==
  IF i > Len(b) THEN Res(FALSE, acc, i)                         \* unterminated string
  ELSE LET c == b[i] IN
  IF c = BS THEN
       IF i = Len(b) THEN Res(FALSE, acc, i)
       ELSE LET e == b[i + 1] IN
            IF e = 110 THEN Lit(b, i + 2, d, Append(acc, LF))
            ELSE IF e = 114 THEN Lit(b, i + 2, d, Append(acc, CR))
            ELSE IF e = 116 THEN Lit(b, i + 2, d, Append(acc, 9))
            ELSE IF e = 98 THEN Lit(b, i + 2, d, Append(acc, 8))
            ELSE IF e = 102 THEN Lit(b, i + 2, d, Append(acc, 12))
            ELSE IF e = LP \/ e = RP \/ e = BS THEN Lit(b, i + 2, d, Append(acc, e))
            ELSE IF IsOct(e) THEN
                 LET n2 == i + 2 <= Len(b) /\ IsOct(b[i + 2])
                     n3 == n2 /\ i + 3 <= Len(b) /\ IsOct(b[i + 3])
                     v  == IF n3 THEN (e - 48) * 64 + (b[i + 2] - 48) * 8 + (b[i + 3] - 48)
                           ELSE IF n2 THEN (e - 48) * 8 + (b[i + 2] - 48) ELSE e - 48
                 IN Lit(b, i + (IF n3 THEN 4 ELSE IF n2 THEN 3 ELSE 2), d, Append(acc, v % 256))
            ELSE IF e = LF THEN Lit(b, i + 2, d, acc)
            ELSE IF e = CR THEN Lit(b, IF i + 2 <= Len(b) /\ b[i + 2] = LF THEN i + 3 ELSE i + 2, d, acc)
            ELSE Lit(b, i + 2, d, Append(acc, e))
  ELSE IF c = LP THEN Lit(b, i + 1, d + 1, Append(acc, LP))
  ELSE IF c = RP THEN IF d = 0 THEN Res(TRUE, acc, i + 1) ELSE Lit(b, i + 1, d - 1, Append(acc, RP))
  ELSE IF c = CR THEN Lit(b, IF i + 1 <= Len(b) /\ b[i + 1] = LF THEN i + 2 ELSE i + 1, d, Append(acc, LF))
  ELSE Lit(b, i + 1, d, Append(acc, c))

HasPrefixAt(b, i, p) == i + Len(p) - 1 <= Len(b) /\ \A k \in 1..Len(p) : b[i + k - 1] = p[k]

(***************************************************************************)
(* One field dictionary of the /Fields array:  << /T (name) /V (value) >>  *)
(* read the way a PDF reader does: white space (NUL HT LF FF CR SP) between*)
(* tokens is free, /T and /V may come in either order, each exactly once.  *)
(* Only the layout is free -- the strings are decoded byte by byte above.  *)
(***************************************************************************)
IsWs(c) == c \in {0, 9, 10, 12, 13, 32}
RECURSIVE SkipWs(_, _)
SkipWs(b, i) == IF i <= Len(b) /\ IsWs(b[i]) THEN SkipWs(b, i + 1) ELSE i

Fail(why) == [ok |-> FALSE, why |-> why]
KeyT == <<47, 84>>      \* "/T"
KeyV == <<47, 86>>      \* "/V"

RECURSIVE KV(_, _, _)
KV(b, i, acc) ==
  LET j == SkipWs(b, i) IN
  IF HasPrefixAt(b, j, <<62, 62>>) THEN
       IF SkipWs(b, j + 2) # Len(b) + 1 THEN Fail("the value string ends early: the entry continues after it")
       ELSE IF ~(acc.hasT /\ acc.hasV) THEN Fail("entry lacks /T or /V")
       ELSE [ok |-> TRUE, name |-> acc.t, value |-> acc.v]
  ELSE IF HasPrefixAt(b, j, KeyT) \/ HasPrefixAt(b, j, KeyV) THEN
       LET isT == HasPrefixAt(b, j, KeyT)
           p   == SkipWs(b, j + 2)
       IN IF (isT /\ acc.hasT) \/ (~isT /\ acc.hasV) THEN Fail("a key occurs twice in one entry")
          ELSE IF ~(p <= Len(b) /\ b[p] = LP) THEN Fail("the value of /T or /V is not a literal string")
          ELSE LET st == Lit(b, p + 1, 0, <<>>) IN
               IF ~st.ok THEN Fail(IF isT THEN "field name string is not terminated" ELSE "value string is not terminated")
               ELSE KV(b, st.nxt, IF isT THEN [acc EXCEPT !.hasT = TRUE, !.t = st.val] ELSE [acc EXCEPT !.hasV = TRUE, !.v = st.val])
  ELSE Fail("a string ends early: unexpected bytes follow it inside the entry")

ParseEntry(b) ==
  LET i == SkipWs(b, 1) IN
  IF ~HasPrefixAt(b, i, <<60, 60>>) THEN Fail("entry does not start with <<")
  ELSE KV(b, i + 2, [hasT |-> FALSE, hasV |-> FALSE, t |-> <<>>, v |-> <<>>])
=============================================================================
