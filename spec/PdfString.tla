----------------------------- MODULE PdfString -----------------------------
(***************************************************************************)
(* PDF literal strings (ISO 32000-1, 7.3.4.2) as the PDF tool reads them   *)
(* from a form-data (FDF) file: bytes between balanced parentheses;        *)
(* backslash escapes \n \r \t \b \f \( \) \\ ; \ddd octal; backslash +     *)
(* end-of-line is a continuation; a backslash before any other character   *)
(* is dropped; an unescaped end-of-line reads as LF.                       *)
(***************************************************************************)
EXTENDS Integers, Sequences

BS == 92  LP == 40  RP == 41  LF == 10  CR == 13
IsOct(c) == c >= 48 /\ c <= 55

Res(ok, val, nxt) == [ok |-> ok, val |-> val, nxt |-> nxt]

(* b: bytes, i: index of the byte after the opening parenthesis *)
RECURSIVE Lit(_, _, _, _)
Lit(b, i, d, acc) ==
  IF i > Len(b) THEN Res(FALSE, acc, i)                         \* unterminated string
  ELSE LET c == b[i] IN
  IF c = BS THEN
       IF i = Len(b) THEN Res(FALSE, acc, i)
       ELSE LET e == b[i + 1] IN
            IF e = 110 THEN Lit(b, i + 2, d, Append(acc, LF))
            ELSE IF e = 114 THEN Lit(b, i + 2, d, Append(acc, CR))
            ELSE IF e = 116 THEN Lit(b, i + 2, d, Append(acc, 9))
            ELSE IF e = 98 THEN Lit(b, i + 2, d, Append(acc, 8))
            ELSE IF e = 102 THEN Lit(b, i + 2, d, Append(acc, 12))
            ELSE IF e = LP \/ e = RP \/ e = BS THEN Lit(b, i + 2, d, Append(acc, e))
            ELSE IF IsOct(e) THEN
                 LET n2 == i + 2 <= Len(b) /\ IsOct(b[i + 2])
                     n3 == n2 /\ i + 3 <= Len(b) /\ IsOct(b[i + 3])
                     v  == IF n3 THEN (e - 48) * 64 + (b[i + 2] - 48) * 8 + (b[i + 3] - 48)
                           ELSE IF n2 THEN (e - 48) * 8 + (b[i + 2] - 48) ELSE e - 48
                 IN Lit(b, i + (IF n3 THEN 4 ELSE IF n2 THEN 3 ELSE 2), d, Append(acc, v % 256))
            ELSE IF e = LF THEN Lit(b, i + 2, d, acc)
            ELSE IF e = CR THEN Lit(b, IF i + 2 <= Len(b) /\ b[i + 2] = LF THEN i + 3 ELSE i + 2, d, acc)
            ELSE Lit(b, i + 2, d, Append(acc, e))
  ELSE IF c = LP THEN Lit(b, i + 1, d + 1, Append(acc, LP))
  ELSE IF c = RP THEN IF d = 0 THEN Res(TRUE, acc, i + 1) ELSE Lit(b, i + 1, d - 1, Append(acc, RP))
  ELSE IF c = CR THEN Lit(b, IF i + 1 <= Len(b) /\ b[i + 1] = LF THEN i + 2 ELSE i + 1, d, Append(acc, LF))
  ELSE Lit(b, i + 1, d, Append(acc, c))

HasPrefixAt(b, i, p) == i + Len(p) - 1 <= Len(b) /\ \A k \in 1..Len(p) : b[i + k - 1] = p[k]

(* one field entry as habutax writes it:  << /T (name) /V (value) >>  *)
P1 == <<60, 60, 32, 47, 84, 32, 40>>            \* "<< /T ("
P2 == <<32, 47, 86, 32, 40>>                    \* " /V ("
P3 == <<32, 62, 62>>                            \* " >>"

ParseEntry(b) ==
  IF ~HasPrefixAt(b, 1, P1) THEN [ok |-> FALSE, why |-> "entry does not start with << /T ("]
  ELSE LET t == Lit(b, Len(P1) + 1, 0, <<>>) IN
       IF ~t.ok THEN [ok |-> FALSE, why |-> "field name string is not terminated"]
       ELSE IF ~HasPrefixAt(b, t.nxt, P2) THEN [ok |-> FALSE, why |-> "the field name string ends early: /V does not follow it"]
       ELSE LET v == Lit(b, t.nxt + Len(P2), 0, <<>>) IN
            IF ~v.ok THEN [ok |-> FALSE, why |-> "value string is not terminated"]
            ELSE IF ~(HasPrefixAt(b, v.nxt, P3) /\ v.nxt + Len(P3) - 1 = Len(b)) THEN [ok |-> FALSE, why |-> "the value string ends early: the entry continues after it"]
            ELSE [ok |-> TRUE, name |-> t.val, value |-> v.val]
=============================================================================
