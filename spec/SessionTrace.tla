---------------------------- MODULE SessionTrace ----------------------------
(***************************************************************************)
(* C20 on REAL sessions: each record describes one run of the real         *)
(* `habutax solve --prompt-missing --writeback-input` (in-process, scripted*)
(* keyboard) that was cut short at prompt k, and the follow-up run on the  *)
(* file it left behind:                                                    *)
(*   [sid, kind, k, before ([input -> text] on disk before),               *)
(*    answered (Seq of [i, v]: answers typed before the interruption),     *)
(*    parsed (the file afterwards is a well-formed input file),            *)
(*    after ([input -> text] on disk afterwards), rerun_asks (Seq)]        *)
(***************************************************************************)
EXTENDS Integers, Sequences, FiniteSets, TLC, Json, IOUtils

Recs == TLCEval(JsonDeserialize(IOEnv.HV_SESS_FILE)).sessions
SeqToSet(q) == {q[k] : k \in 1..Len(q)}

WellFormed(r) == r.parsed
KeepsFile(r) == \A i \in DOMAIN r.before : i \in DOMAIN r.after /\ r.after[i] = r.before[i]
KeepsAnswers(r) == \A k \in 1..Len(r.answered) : r.answered[k].i \in DOMAIN r.after /\ r.after[r.answered[k].i] = r.answered[k].v
NoReAsk(r) == \A k \in 1..Len(r.rerun_asks) :
                 /\ r.rerun_asks[k] \notin {r.answered[j].i : j \in 1..Len(r.answered)}
                 /\ r.rerun_asks[k] \notin DOMAIN r.before

Judge(r) ==
  IF ~WellFormed(r) THEN "the input file is not well-formed after the interruption"
  ELSE IF ~KeepsFile(r) THEN "a value the file held before is gone or changed"
  ELSE IF ~KeepsAnswers(r) THEN "an answer given before the interruption is not in the file"
  ELSE IF ~NoReAsk(r) THEN "the follow-up run asks again for something already given"
  ELSE ""

(***************************************************************************)
(* C13 on complete sessions (kind "none"): solve with prompts and          *)
(* write-back, then the same command on the file it wrote.  `returned`:    *)
(* the first run ended normally; `same`: both runs wrote the same solution.*)
(***************************************************************************)
Judge13(r) ==
  IF ~r.returned THEN ""                                      \* the run stopped with an error: C20's business
  ELSE IF \E j \in 1..Len(r.asked) : r.asked[j] \in DOMAIN r.before THEN "the run asks for an input the file already supplied"
  ELSE IF ~WellFormed(r) THEN "the written-back input file is not well-formed"
  ELSE IF ~KeepsFile(r) THEN "write-back changed a value the file held"
  ELSE IF ~KeepsAnswers(r) THEN "an answer was not written back"
  ELSE IF r.rerun_asks # <<>> THEN "the re-run on the written-back file asks again"
  ELSE IF ~r.same THEN "the re-run on the written-back file gives another solution"
  ELSE ""

VARIABLE k
Init == k = 0
Next == /\ k < Len(Recs) /\ k' = k + 1
        /\ LET m == Judge(Recs[k + 1]) IN m = "" \/ PrintT("C20|" \o ToString(Recs[k + 1].sid) \o "|" \o m \o "|")
Spec == Init /\ [][Next]_k
Next13 == /\ k < Len(Recs) /\ k' = k + 1
          /\ LET m == Judge13(Recs[k + 1]) IN m = "" \/ PrintT("C13|" \o ToString(Recs[k + 1].sid) \o "|" \o m \o "|")
Spec13 == Init /\ [][Next13]_k
=============================================================================
