------------------------------ MODULE TrackerCore ----------------------------
(***************************************************************************)
(* habutax.solver.DependencyTracker as an object: every public method is   *)
(* one action; met_dependents() is a generator, so ONE next() of it is an  *)
(* action (DrainNext) and drains interleave with registrations and repeated*)
(* meets.  C06: every registered wait is released exactly once after its   *)
(* dependency is met -- never lost, never released before.                 *)
(*                                                                         *)
(* Step(st, op) is the pure transition function; it is used                *)
(*  - by the model below (all histories up to a bound, invariants), and    *)
(*  - to validate every transition of the REAL object's reachable state    *)
(*    graph (HV_TRK_FILE: Seq of [pre, op, post, ret]).                    *)
(***************************************************************************)
EXTENDS SolverCore, Json, IOUtils

(* st = [unmet |-> [dep -> Seq(waiter)], met |-> Seq(dep)] *)
Step(st, op) ==
  CASE op.op = "add"  -> [st |-> [st EXCEPT !.unmet = Reg(@, op.d, op.w)], ret |-> "None"]
    [] op.op = "meet" -> [st |-> [st EXCEPT !.met = Append(@, op.d)], ret |-> "None"]
    [] op.op = "has_met" -> [st |-> st, ret |-> IF HasMet(st.met) THEN "True" ELSE "False"]
    [] op.op = "has_unmet" -> [st |-> st, ret |-> IF HasUnmet(st.unmet, st.met) THEN "True" ELSE "False"]
    [] op.op = "next" ->
         (* one next() of met_dependents(): skip met names nobody waits for; pop the LAST waiter of the first met name *)
         LET RECURSIVE Go(_)
             Go(s) == IF s.met = <<>> THEN [st |-> s, ret |-> "STOP"]
                      ELSE LET m == Head(s.met) IN
                           IF m \in DOMAIN s.unmet
                           THEN LET q == s.unmet[m]
                                    w == q[Len(q)]
                                    rest == SubSeq(q, 1, Len(q) - 1)
                                IN IF rest = <<>>
                                   THEN [st |-> [unmet |-> Del(s.unmet, m), met |-> Tail(s.met)], ret |-> w]
                                   ELSE [st |-> [unmet |-> Upd(s.unmet, m, rest), met |-> s.met], ret |-> w]
                           ELSE Go([s EXCEPT !.met = Tail(@)])
         IN Go(st)

(* the closed form the solver specification uses is the iteration of "next" until STOP *)
RECURSIVE DrainAll(_)
DrainAll(st) == LET r == Step(st, [op |-> "next"]) IN IF r.ret = "STOP" THEN <<>> ELSE <<r.ret>> \o DrainAll(r.st)
ClosedFormAgrees(st) == DrainAll(st) = DrainSeq(st.unmet, st.met)

=============================================================================
