------------------------------ MODULE NatSort ------------------------------
(***************************************************************************)
(* The "natural" order in which the solver lists lines and inputs          *)
(* (habutax.solver.sort_keys): 1 < 1a < 2 < 10, forms before lines.        *)
(*                                                                         *)
(* A name is  form.line  (or a bare line: empty form part).  Each part is  *)
(* cut into tokens: a maximal run of ASCII digits is a NUMBER, a maximal   *)
(* run of letters is a WORD, every other character only separates.  Parts  *)
(* are compared token by token: a number sorts before a word, numbers by   *)
(* value, words by code points; a proper prefix sorts first.  The form     *)
(* part decides first.  Names that differ only in separators are EQUAL in  *)
(* this order ("2a", "2_a", "2-a").                                        *)
(*                                                                         *)
(* No listed property fixes the order of attempts; the order matters for   *)
(* the `rank` constant of the solver specification (which line the         *)
(* deterministic schedule takes next) and for what the user is asked       *)
(* first.  Facts (HV_NS_FILE): names : Seq of [f, l : Seq of code points], *)
(* pairs : Seq of [a, b, impl, mine] with impl / mine \in {-1, 0, 1} the   *)
(* comparison by the real sort_keys and by harness/natsort.py.             *)
(***************************************************************************)
EXTENDS Integers, Sequences, FiniteSets, TLC, Json, IOUtils

F == TLCEval(JsonDeserialize(IOEnv.HV_NS_FILE))

IsDigit(c)  == c >= 48 /\ c <= 57
IsLetter(c) == \/ (c >= 65 /\ c <= 90) \/ (c >= 97 /\ c <= 122)
               \/ (c >= 192 /\ c <= 255 /\ c # 215 /\ c # 247) \/ c \in {170, 181, 186}   \* Latin-1 letters

(* tokens: [num |-> BOOLEAN, s |-> Seq of code points]; a number keeps its digits without leading zeros *)
RECURSIVE DropZeros(_)
DropZeros(d) == IF Len(d) > 1 /\ Head(d) = 48 THEN DropZeros(Tail(d)) ELSE d

RECURSIVE Tok(_, _, _, _)
(* s: rest, cur: run being collected, kind: "n" | "w" | "", acc: tokens so far *)
Flush(cur, kind, acc) == IF cur = <<>> THEN acc
                         ELSE Append(acc, [num |-> kind = "n", s |-> IF kind = "n" THEN DropZeros(cur) ELSE cur])
Tok(s, cur, kind, acc) ==
  IF s = <<>> THEN Flush(cur, kind, acc)
  ELSE LET c == Head(s)
           k == IF IsDigit(c) THEN "n" ELSE IF IsLetter(c) THEN "w" ELSE ""
       IN IF k = "" THEN Tok(Tail(s), <<>>, "", Flush(cur, kind, acc))
          ELSE IF k = kind THEN Tok(Tail(s), Append(cur, c), kind, acc)
          ELSE Tok(Tail(s), <<c>>, k, Flush(cur, kind, acc))
Tokens(s) == Tok(s, <<>>, "", <<>>)

(* lexicographic comparison of code point sequences: -1, 0, 1 *)
RECURSIVE CmpSeq(_, _)
CmpSeq(a, b) == IF a = <<>> THEN (IF b = <<>> THEN 0 ELSE -1)
                ELSE IF b = <<>> THEN 1
                ELSE IF Head(a) < Head(b) THEN -1 ELSE IF Head(a) > Head(b) THEN 1 ELSE CmpSeq(Tail(a), Tail(b))

CmpTok(x, y) ==
  IF x.num /\ ~y.num THEN -1 ELSE IF ~x.num /\ y.num THEN 1
  ELSE IF x.num THEN (IF Len(x.s) < Len(y.s) THEN -1 ELSE IF Len(x.s) > Len(y.s) THEN 1 ELSE CmpSeq(x.s, y.s))
  ELSE CmpSeq(x.s, y.s)

RECURSIVE CmpToks(_, _)
CmpToks(a, b) == IF a = <<>> THEN (IF b = <<>> THEN 0 ELSE -1)
                 ELSE IF b = <<>> THEN 1
                 ELSE LET c == CmpTok(Head(a), Head(b)) IN IF c # 0 THEN c ELSE CmpToks(Tail(a), Tail(b))

CmpParts(x, y) == LET c == CmpToks(Tokens(x.f), Tokens(y.f)) IN IF c # 0 THEN c ELSE CmpToks(Tokens(x.l), Tokens(y.l))
Cmp(a, b) == CmpParts(F.names[a], F.names[b])

VARIABLE k
Init == k = 0
Next == /\ k < Len(F.pairs) /\ k' = k + 1
        /\ LET p == F.pairs[k + 1]
               c == Cmp(p.a, p.b)
           IN /\ Assert(Cmp(p.b, p.a) = 0 - c /\ Cmp(p.a, p.a) = 0, "the order is not antisymmetric / reflexive")
              /\ (c = p.impl \/ PrintT("NS|impl|" \o ToString(p.a) \o "|" \o ToString(p.b) \o "|" \o ToString(c) \o "|" \o ToString(p.impl) \o "|"))
              /\ (c = p.mine \/ PrintT("NS|mine|" \o ToString(p.a) \o "|" \o ToString(p.b) \o "|" \o ToString(c) \o "|" \o ToString(p.mine) \o "|"))
Spec == Init /\ [][Next]_k
=============================================================================
