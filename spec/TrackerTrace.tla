---------------------------- MODULE TrackerTrace ----------------------------
(* every transition of the REAL DependencyTracker's reachable state graph must be an instance of TrackerCore!Step *)
EXTENDS TrackerCore

(***************************************************************************)
(* validation of the real object's transitions                             *)
(***************************************************************************)
Trans == TLCEval(JsonDeserialize(IOEnv.HV_TRK_FILE)).trans
VARIABLE k
VInit == k = 0
VNext == /\ k < Len(Trans) /\ k' = k + 1
         /\ LET x == Trans[k + 1]
                r == Step(x.pre, x.op)
            IN (r.st = x.post /\ r.ret = x.ret) \/ PrintT("TRK|" \o ToString(k + 1) \o "|")
VSpec == VInit /\ [][VNext]_k
=============================================================================
