---------------------------- MODULE TrackerTrace ----------------------------
(* every transition of the REAL DependencyTracker's reachable state graph must be an instance of TrackerCore!Step *)
EXTENDS TrackerCore

(***************************************************************************)
(* validation of the real object's transitions, through what the state     *)
(* MEANS (C06 speaks of waits and releases, not of lists):                 *)
(*   wait : dependency -> bag of waiters (dependencies somebody waits for) *)
(*   rel  : the waited-for dependencies that are met and not yet drained   *)
(* A release may hand out ANY waiter of ANY releasable dependency; met     *)
(* names nobody waits for, names met twice and emptied lists do not count. *)
(***************************************************************************)
Trans == TLCEval(JsonDeserialize(IOEnv.HV_TRK_FILE)).trans
SeqToSet(q) == {q[j] : j \in 1..Len(q)}
NonEmpty(U) == {d \in DOMAIN U : U[d] # <<>>}
BagOf(q) == [x \in SeqToSet(q) |-> Cardinality({j \in 1..Len(q) : q[j] = x})]
Abs(st) == [wait |-> [d \in NonEmpty(st.unmet) |-> BagOf(st.unmet[d])],
            rel  |-> SeqToSet(st.met) \cap NonEmpty(st.unmet)]
TakeOne(a, d, w) ==
  LET n == a.wait[d][w]
      bag == IF n > 1 THEN [a.wait[d] EXCEPT ![w] = n - 1] ELSE [x \in DOMAIN a.wait[d] \ {w} |-> a.wait[d][x]]
  IN IF DOMAIN bag = {} THEN [wait |-> [e \in DOMAIN a.wait \ {d} |-> a.wait[e]], rel |-> a.rel \ {d}]
     ELSE [wait |-> [a.wait EXCEPT ![d] = bag], rel |-> a.rel]

TransOk(x) ==
  LET a == Abs(x.pre) b == Abs(x.post) IN
  IF x.op.op = "next" THEN
       IF a.rel = {} THEN x.ret = "STOP" /\ b = a
       ELSE \E d \in a.rel : x.ret \in DOMAIN a.wait[d] /\ b = TakeOne(a, d, x.ret)
  ELSE LET r == Step(x.pre, x.op) IN
       /\ Abs(r.st) = b
       /\ IF x.op.op = "has_met" THEN (a.rel # {} => x.ret = "True") /\ x.ret \in {"True", "False"}
          ELSE x.ret = r.ret

VARIABLE k
VInit == k = 0
VNext == /\ k < Len(Trans) /\ k' = k + 1
         /\ TransOk(Trans[k + 1]) \/ PrintT("TRK|" \o ToString(k + 1) \o "|")
VSpec == VInit /\ [][VNext]_k
=============================================================================
