---------------------------- MODULE TrackerTrace ----------------------------
(* every transition of the REAL DependencyTracker's reachable state graph must be an instance of TrackerCore!Step *)
EXTENDS TrackerCore

(***************************************************************************)
(* validation of the real object's transitions, through what the state     *)
(* MEANS (C06 speaks of waits and releases, not of lists):                 *)
(*   wait : dependency -> bag of waiters (dependencies somebody waits for) *)
(*   met  : the SET of dependencies met and not yet passed over by a drain *)
(* A release may hand out ANY waiter of ANY met dependency that has        *)
(* waiters; the order of the lists, a name met twice, emptied lists left   *)
(* behind and the moment at which a met name nobody waits for is forgotten *)
(* DURING A DRAIN are representation.  Forgetting a met name at meet()     *)
(* time is not: a waiter that registers before the next drain is due (the  *)
(* property quantifies over every history of register / meet / drain).     *)
(***************************************************************************)
Trans == TLCEval(JsonDeserialize(IOEnv.HV_TRK_FILE)).trans
SeqToSet(q) == {q[j] : j \in 1..Len(q)}
NonEmpty(U) == {d \in DOMAIN U : U[d] # <<>>}
BagOf(q) == [x \in SeqToSet(q) |-> Cardinality({j \in 1..Len(q) : q[j] = x})]
Abs(st) == [wait |-> [d \in NonEmpty(st.unmet) |-> BagOf(st.unmet[d])], met |-> SeqToSet(st.met)]
Due(a) == a.met \cap DOMAIN a.wait
WaitTakeOne(wt, d, w) ==
  LET n == wt[d][w]
      bag == IF n > 1 THEN [wt[d] EXCEPT ![w] = n - 1] ELSE [x \in DOMAIN wt[d] \ {w} |-> wt[d][x]]
  IN IF DOMAIN bag = {} THEN [e \in DOMAIN wt \ {d} |-> wt[e]] ELSE [wt EXCEPT ![d] = bag]

TransOk(x) ==
  LET a == Abs(x.pre) b == Abs(x.post) IN
  CASE x.op.op = "next" ->
         IF Due(a) = {} THEN x.ret = "STOP" /\ b.wait = a.wait /\ b.met \subseteq a.met
         ELSE \E d \in Due(a) : /\ x.ret \in DOMAIN a.wait[d]
                                 /\ b.wait = WaitTakeOne(a.wait, d, x.ret)
                                 /\ b.met \subseteq a.met
                                 /\ (a.met \cap DOMAIN b.wait) \subseteq b.met          \* what is still due stays due
    [] x.op.op = "add" -> b = Abs(Step(x.pre, x.op).st) /\ x.ret = "None"
    [] x.op.op = "meet" -> b.wait = a.wait /\ b.met = a.met \cup {x.op.d} /\ x.ret = "None"
    [] x.op.op = "has_met" -> b = a /\ x.ret \in {"True", "False"} /\ (Due(a) # {} => x.ret = "True")
    [] x.op.op = "has_unmet" -> b = a /\ x.ret = Step(x.pre, x.op).ret
    [] OTHER -> FALSE

VARIABLE k
VInit == k = 0
VNext == /\ k < Len(Trans) /\ k' = k + 1
         /\ TransOk(Trans[k + 1]) \/ PrintT("TRK|" \o ToString(k + 1) \o "|")
VSpec == VInit /\ [][VNext]_k
=============================================================================
