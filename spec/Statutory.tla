----------------------------- MODULE Statutory -----------------------------
(***************************************************************************)
(* C08: year- and status-indexed statutory amounts are the official ones.  *)
(*                                                                         *)
(* Official[y][name] is the published value per filing status, in the      *)
(* order <<Single, MFJ, MFS, HoH, QSS>>, as a SET of whole-dollar amounts  *)
(* (most are singletons; a worksheet with several bands has several).      *)
(* Rate[y][name] is a rate in millionths.  Sources: Rev. Proc. 2020-45,    *)
(* 2021-45, 2022-38; Form 1040 / 8812 / 8959 / 8889 / 6251 / 8995          *)
(* instructions; American Rescue Plan Act (2021 credits); NC D-400/D-401.  *)
(*                                                                         *)
(* Bind[line] says which official amounts a line of the forms must use.    *)
(* The harness executes each bound line definition along all its paths for *)
(* each filing status and reports every plain number the line compares an  *)
(* amount with, combines an amount with, looks up or returns (HV_FACTS).   *)
(* TLC requires: statutory-looking constants used = official amounts.      *)
(***************************************************************************)
EXTENDS Integers, Sequences, FiniteSets, TLC, Json, IOUtils

All(x)            == <<{x}, {x}, {x}, {x}, {x}>>
Five(s, j, m, h, q) == <<{s}, {j}, {m}, {h}, {q}>>
JointDouble(x)    == Five(x, 2 * x, x, x, 2 * x)            \* MFJ and QSS get twice the amount
SetsAll(S)        == <<S, S, S, S, S>>

Official ==
  [y \in {2021, 2022, 2023} |->
   [ std_ded      |-> CASE y = 2021 -> Five(12550, 25100, 12550, 18800, 25100)
                        [] y = 2022 -> Five(12950, 25900, 12950, 19400, 25900)
                        [] y = 2023 -> Five(13850, 27700, 13850, 20800, 27700),
     charitable_nonitemizer |-> Five(300, 600, 300, 300, 300),                        \* 2021 only (line 12b)
     sched_b      |-> All(1500),
     qbi_limit    |-> CASE y = 2021 -> Five(164900, 329800, 164925, 164900, 164900)
                        [] y = 2022 -> Five(170050, 340100, 170050, 170050, 170050)
                        [] y = 2023 -> Five(182100, 364200, 182100, 182100, 182100),
     cg_zero      |-> CASE y = 2021 -> Five(40400, 80800, 40400, 54100, 80800)
                        [] y = 2022 -> Five(41675, 83350, 41675, 55800, 83350)
                        [] y = 2023 -> Five(44625, 89250, 44625, 59750, 89250),
     cg_fifteen   |-> CASE y = 2021 -> Five(445850, 501600, 250800, 473750, 501600)
                        [] y = 2022 -> Five(459750, 517200, 258600, 488500, 517200)
                        [] y = 2023 -> Five(492300, 553850, 276900, 523050, 553850),
     amt_exempt   |-> CASE y = 2021 -> Five(73600, 114600, 57300, 73600, 114600)
                        [] y = 2022 -> Five(75900, 118100, 59050, 75900, 118100)
                        [] y = 2023 -> Five(81300, 126500, 63250, 81300, 126500),
     amt_phaseout |-> CASE y = 2021 -> Five(523600, 1047200, 523600, 523600, 1047200)
                        [] y = 2022 -> Five(539900, 1079800, 539900, 539900, 1079800)
                        [] y = 2023 -> Five(578150, 1156300, 578150, 578150, 1156300),
     amt_break    |-> CASE y = 2021 -> Five(199900, 199900, 99950, 199900, 199900)
                        [] y = 2022 -> Five(206100, 206100, 103050, 206100, 206100)
                        [] y = 2023 -> Five(220700, 220700, 110350, 220700, 220700),
     ctc_child    |-> IF y = 2021 THEN SetsAll({3600, 3000, 2000}) ELSE All(2000),
     ctc_young    |-> All(3600),  ctc_older |-> All(3000),  ctc_base |-> All(2000),  \* 2021 line 5 worksheet
     odc          |-> All(500),
     ctc_phaseout |-> Five(200000, 400000, 200000, 200000, 200000),
     ctc_phaseout_2021_first |-> Five(75000, 150000, 75000, 112500, 150000),          \* 2021 line 5 worksheet line 8
     ctc_ws6_2021 |-> Five(6250, 12500, 6250, 4375, 2500),                            \* 2021 line 5 worksheet line 6
     ctc_repay_2021 |-> Five(40000, 60000, 40000, 50000, 60000),                      \* 2021 line 33
     ctc_safe_harbor_2021 |-> All(2000),
     actc_child   |-> IF y = 2023 THEN All(1600) ELSE All(1500),
     ctc_step     |-> All(1000),
     medicare_thr |-> Five(200000, 250000, 125000, 200000, 200000),
     medicare_wh  |-> All(200000),
     hsa_limit    |-> CASE y = 2021 -> SetsAll({3600, 7200})
                        [] y = 2022 -> SetsAll({3650, 7300})
                        [] y = 2023 -> SetsAll({3850, 7750}),
     salt_cap     |-> Five(10000, 10000, 5000, 10000, 10000),
     mip_limit    |-> Five(100000, 100000, 50000, 100000, 100000),                    \* 2021 Schedule A line 8d
     noncash_8283 |-> All(500),
     eic_invest   |-> CASE y = 2021 -> All(10000) [] y = 2022 -> All(10300) [] y = 2023 -> All(11000),
     eic_agi      |-> CASE y = 2021 -> <<{21430, 42158, 47915, 51464}, {27380, 48108, 53865, 57414}, {21430, 42158, 47915, 51464}, {21430, 42158, 47915, 51464}, {21430, 42158, 47915, 51464}>>
                        [] y = 2022 -> <<{16480, 43492, 49399, 53057}, {22610, 49622, 55529, 59187}, {16480, 43492, 49399, 53057}, {16480, 43492, 49399, 53057}, {16480, 43492, 49399, 53057}>>
                        [] y = 2023 -> <<{17640, 46560, 52918, 56838}, {24210, 53120, 59478, 63398}, {17640, 46560, 52918, 56838}, {17640, 46560, 52918, 56838}, {17640, 46560, 52918, 56838}>>,
     savers_agi   |-> CASE y = 2021 -> Five(33000, 66000, 33000, 49500, 33000)
                        [] y = 2022 -> Five(34000, 68000, 34000, 51000, 34000)
                        [] y = 2023 -> Five(36500, 73000, 36500, 54750, 36500),
     rrc_amount   |-> Five(1400, 1400, 1400, 1400, 1400),
     rrc_joint    |-> <<{}, {2800}, {}, {}, {}>>,
     rrc_start    |-> Five(75000, 150000, 75000, 112500, 150000),
     rrc_end      |-> Five(80000, 160000, 80000, 120000, 160000),
     rrc_span     |-> Five(5000, 10000, 5000, 7500, 10000),
     penalty_floor |-> All(1000),
     nc_std       |-> IF y = 2021 THEN Five(10750, 21500, 10750, 16125, 21500) ELSE Five(12750, 25500, 12750, 19125, 25500),
     nc_child     |-> IF y = 2021
                      THEN <<{500, 1000, 1500, 2000, 2500} \cup {20000, 30000, 40000, 50000, 60000},
                             {500, 1000, 1500, 2000, 2500} \cup {40000, 60000, 80000, 100000, 120000},
                             {500, 1000, 1500, 2000, 2500} \cup {20000, 30000, 40000, 50000, 60000},
                             {500, 1000, 1500, 2000, 2500} \cup {30000, 45000, 60000, 75000, 90000},
                             {500, 1000, 1500, 2000, 2500} \cup {40000, 60000, 80000, 100000, 120000}>>
                      ELSE <<{500, 1000, 1500, 2000, 2500, 3000} \cup {20000, 30000, 40000, 50000, 60000, 70000},
                             {500, 1000, 1500, 2000, 2500, 3000} \cup {40000, 60000, 80000, 100000, 120000, 140000},
                             {500, 1000, 1500, 2000, 2500, 3000} \cup {20000, 30000, 40000, 50000, 60000, 70000},
                             {500, 1000, 1500, 2000, 2500, 3000} \cup {30000, 45000, 60000, 75000, 90000, 105000},
                             {500, 1000, 1500, 2000, 2500, 3000} \cup {40000, 60000, 80000, 100000, 120000, 140000}>>,
     nc_salt      |-> Five(10000, 10000, 5000, 10000, 10000),
     nc_mortgage_tax_cap |-> All(20000),
     nc_underpay  |-> All(1000)
   ]]

Rate ==
  [y \in {2021, 2022, 2023} |->
   [ nc_rate |-> CASE y = 2021 -> 52500 [] y = 2022 -> 49900 [] y = 2023 -> 47500,
     cg15 |-> 150000, cg20 |-> 200000, amt_phase |-> 250000, amt26 |-> 260000, ctc_phase |-> 50000,
     medical_floor |-> 75000, addl_medicare |-> 9000, medicare |-> 14500, qbi |-> 200000, penalty_pct |-> 100000,
     nc_charity |-> 600000 ]]

(* consistency of the transcription itself *)
OracleConsistent ==
  \A y \in {2021, 2022, 2023} :
     LET O == Official[y] IN
     /\ O.std_ded[2] = O.std_ded[5] /\ O.std_ded[1] = O.std_ded[3]
     /\ \A n \in {"cg_zero", "cg_fifteen", "amt_exempt", "amt_phaseout", "nc_std", "nc_child"} : O[n][2] = O[n][5]
     /\ \A x \in O.std_ded[1] : 2 * x \in O.std_ded[2]
     /\ \A x \in O.cg_zero[1] : 2 * x \in O.cg_zero[2]
     /\ \A x \in O.amt_break[3] : 2 * x \in O.amt_break[1]
     /\ \A x \in O.amt_phaseout[1] : 2 * x \in O.amt_phaseout[2]
     /\ \A x \in O.nc_std[1] : 2 * x \in O.nc_std[2]
ASSUME OracleConsistent

B(d, r, od, orr, mult) == [d |-> d, r |-> r, od |-> od, orr |-> orr, mult |-> mult]

(* line -> the official amounts it must use.  od / orr: other constants the line legitimately contains. *)
Bind ==
  [y \in {2021, 2022, 2023} |->
    LET common ==
      ( "1040.2b" :> B({"sched_b"}, {}, {}, {}, FALSE) @@
        "1040.3b" :> B({"sched_b"}, {}, {}, {}, FALSE) @@
        "1040_sb.part_3" :> B({"sched_b"}, {}, {}, {}, FALSE) @@
        "1040.itemizing" :> B({"std_ded"}, {}, {}, {}, FALSE) @@
        "1040.13" :> B({"qbi_limit"}, {}, {}, {}, FALSE) @@
        "1040.25c" :> B({"medicare_wh", "medicare_thr"}, {}, {}, {}, FALSE) @@
        "1040.38" :> B({"penalty_floor"}, {"penalty_pct"}, {}, {}, FALSE) @@
        "1040_qualdiv_capgain_tax_wkst.6" :> B({"cg_zero"}, {}, {}, {}, FALSE) @@
        "1040_qualdiv_capgain_tax_wkst.13" :> B({"cg_fifteen"}, {}, {}, {}, FALSE) @@
        "1040_qualdiv_capgain_tax_wkst.18" :> B({}, {"cg15"}, {}, {}, FALSE) @@
        "1040_qualdiv_capgain_tax_wkst.21" :> B({}, {"cg20"}, {}, {}, FALSE) @@
        "1040_s2_need_6251.6" :> B({"amt_exempt"}, {}, {}, {}, FALSE) @@
        "1040_s2_need_6251.8" :> B({"amt_phaseout"}, {}, {}, {}, FALSE) @@
        "1040_s2_need_6251.10" :> B({}, {"amt_phase"}, {}, {}, FALSE) @@
        "1040_s2_need_6251.12" :> B({}, {"amt26"}, {}, {}, FALSE) @@
        "1040_s2_need_6251.need_6251" :> B({"amt_break"}, {}, {}, {}, FALSE) @@
        "1040_s3.4" :> B({"savers_agi"}, {}, {}, {}, FALSE) @@
        "1040_sa.3" :> B({}, {"medical_floor"}, {}, {}, FALSE) @@
        "1040_sa.5e" :> B({"salt_cap"}, {}, {}, {}, FALSE) @@
        "1040_sa.12" :> B({"noncash_8283"}, {}, {}, {}, FALSE) @@
        "1040_s8812.7" :> B({"odc"}, {}, {}, {}, FALSE) @@
        "1040_s8812.9" :> B({"ctc_phaseout"}, {}, {}, {}, FALSE) @@
        "1040_s8812.10" :> B({"ctc_step"}, {}, {}, {}, FALSE) @@
        "1040_s8812.11" :> B({}, {"ctc_phase"}, {}, {}, FALSE) @@
        "8959.5" :> B({"medicare_thr"}, {}, {}, {}, FALSE) @@
        "8959.9" :> B({"medicare_thr"}, {}, {}, {}, FALSE) @@
        "8959.15" :> B({"medicare_thr"}, {}, {}, {}, FALSE) @@
        "8959.7" :> B({}, {"addl_medicare"}, {}, {}, FALSE) @@
        "8959.13" :> B({}, {"addl_medicare"}, {}, {}, FALSE) @@
        "8959.17" :> B({}, {"addl_medicare"}, {}, {}, FALSE) @@
        "8959.21" :> B({}, {"medicare"}, {}, {}, FALSE) @@
        "8995.5" :> B({}, {"qbi"}, {}, {}, FALSE) @@
        "8995.9" :> B({}, {"qbi"}, {}, {}, FALSE) @@
        "8995.14" :> B({}, {"qbi"}, {}, {}, FALSE) @@
        "8889.3" :> B({"hsa_limit"}, {}, {}, {}, FALSE) @@
        "nc_d-400.15" :> B({}, {"nc_rate"}, {}, {}, FALSE) @@
        "nc_d-400.26e" :> B({"nc_underpay"}, {}, {}, {}, FALSE) @@
        "nc_d-400_child_deduction_wkst.4" :> B({"nc_child"}, {}, {}, {}, FALSE) @@
        "nc_d-400_sa.nc_standard_deduction" :> B({"nc_std"}, {}, {}, {}, FALSE) @@
        "nc_d-400_sa.2" :> B({"nc_salt"}, {}, {}, {}, FALSE) @@
        "nc_d-400_sa.4" :> B({"nc_mortgage_tax_cap"}, {}, {}, {}, FALSE) @@
        "nc_d-400_sa.6" :> B({}, {"nc_charity"}, {}, {}, FALSE) @@
        "nc_d-400_sa.7c" :> B({}, {"medical_floor"}, {}, {}, FALSE) )
    IN
    IF y = 2021 THEN common @@
      ( "1040.12a" :> B({"std_ded"}, {}, {}, {}, FALSE) @@
        "1040.12b" :> B({"charitable_nonitemizer"}, {}, {}, {}, FALSE) @@
        "1040.27a" :> B({"eic_invest", "eic_agi"}, {}, {}, {}, FALSE) @@
        "1040_recovery_rebate_credit_wkst.6" :> B({"rrc_amount", "rrc_joint"}, {}, {}, {}, FALSE) @@
        "1040_recovery_rebate_credit_wkst.7" :> B({"rrc_amount"}, {}, {}, {}, TRUE) @@
        "1040_recovery_rebate_credit_wkst.9_checkbox" :> B({"rrc_start"}, {}, {}, {}, FALSE) @@
        "1040_recovery_rebate_credit_wkst.10_checkbox" :> B({"rrc_end"}, {}, {}, {}, FALSE) @@
        "1040_recovery_rebate_credit_wkst.10" :> B({"rrc_end"}, {}, {}, {}, FALSE) @@
        "1040_recovery_rebate_credit_wkst.11" :> B({"rrc_span"}, {}, {}, {}, FALSE) @@
        "1040_sa.8d" :> B({"mip_limit"}, {}, {}, {}, FALSE) @@
        "1040_s8812.33" :> B({"ctc_repay_2021"}, {}, {}, {}, FALSE) @@
        "1040_s8812.37" :> B({"ctc_safe_harbor_2021"}, {}, {}, {}, FALSE) @@
        "1040_s8812.5_ws_1" :> B({"ctc_young"}, {}, {}, {}, FALSE) @@
        "1040_s8812.5_ws_2" :> B({"ctc_older"}, {}, {}, {}, FALSE) @@
        "1040_s8812.5_ws_4" :> B({"ctc_base"}, {}, {}, {}, FALSE) @@
        "1040_s8812.5_ws_6" :> B({"ctc_ws6_2021"}, {}, {}, {}, FALSE) @@
        "1040_s8812.5_ws_8" :> B({"ctc_phaseout_2021_first"}, {}, {}, {}, FALSE) @@
        "1040_s8812.5_ws_9" :> B({"ctc_step"}, {}, {}, {}, FALSE) @@
        "1040_s8812.5_ws_10" :> B({}, {"ctc_phase"}, {}, {}, FALSE) )
    ELSE common @@
      ( "1040.12" :> B({"std_ded"}, {}, {}, {}, FALSE) @@
        "1040.27" :> B({"eic_invest", "eic_agi"}, {}, {}, {}, FALSE) @@
        "1040_s8812.5" :> B({"ctc_child"}, {}, {}, {}, FALSE) @@
        "1040_s8812.16b" :> B({"actc_child"}, {}, {}, {}, FALSE) )]

(***************************************************************************)
(* judging the harvested constants                                         *)
(***************************************************************************)
Facts == TLCEval(JsonDeserialize(IOEnv.HV_FACTS_FILE)).lines     \* Seq of [y, line, s (1..5), d (Seq of dollars), r (Seq of millionths)]
SeqToSet(q) == {q[k] : k \in 1..Len(q)}

ExpectedD(y, b, s) == UNION {Official[y][n][s] : n \in b.d}
ExpectedR(y, b)    == {Rate[y][n] : n \in b.r}

Judge(o) ==
  LET b  == Bind[o.y][o.line]
      hd == SeqToSet(o.d) \ b.od
      hr == SeqToSet(o.r) \ b.orr
      ed == ExpectedD(o.y, b, o.s)
      er == ExpectedR(o.y, b)
  IN IF b.mult
     THEN IF ed \subseteq hd /\ \A x \in hd : \E e \in ed, m \in 1..6 : x = m * e THEN "" ELSE "amounts " \o ToString(hd) \o " are not multiples of the official " \o ToString(ed)
     ELSE IF hd # ed THEN "uses " \o ToString(hd) \o " where the official amounts are " \o ToString(ed)
     ELSE IF hr # er THEN "uses the rates " \o ToString(hr) \o " (millionths) where the official ones are " \o ToString(er)
     ELSE ""

VARIABLE k
Init == k = 0
Next == /\ k < Len(Facts) /\ k' = k + 1
        /\ LET o == Facts[k + 1] IN
           IF o.line \notin DOMAIN Bind[o.y] THEN PrintT("C08|unbound|" \o ToString(k + 1) \o "||")
           ELSE LET m == Judge(o) IN m = "" \/ PrintT("C08|bad|" \o ToString(k + 1) \o "|" \o m \o "|")
Spec == Init /\ [][Next]_k
=============================================================================
