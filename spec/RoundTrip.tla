------------------------------ MODULE RoundTrip ------------------------------
(***************************************************************************)
(* C14: a written solution reads back to exactly the values solved.        *)
(* Records (HV_RT_FILE), one per stored line of a solution that went       *)
(* solution() -> ConfigParser.write -> file -> fill-pdfs loading           *)
(* (PDFFiller._add_form/_read_form_fields -> Field.from_string):           *)
(*   [rid, type ("float" | "int" | "bool" | "enum" | "str"),               *)
(*    orig, back : canonical encodings made by the harness -- floats by    *)
(*    their exact hexadecimal form, integers and booleans by their text,   *)
(*    enumerations by member name ("" = blank), text as Seq of code points,*)
(*    present : the line was found after reading back]                     *)
(* and one record per solution: [year solved, year stamped, year of the    *)
(* form definitions used to interpret it].                                 *)
(***************************************************************************)
EXTENDS Integers, Sequences, FiniteSets, TLC, Json, IOUtils

F == TLCEval(JsonDeserialize(IOEnv.HV_RT_FILE))

IsSpace(c) == c \in {32, 9, 10, 11, 12, 13}
RECURSIVE LStrip(_)
LStrip(q) == IF q # <<>> /\ IsSpace(Head(q)) THEN LStrip(Tail(q)) ELSE q
RECURSIVE RStrip(_)
RStrip(q) == IF q # <<>> /\ IsSpace(q[Len(q)]) THEN RStrip(SubSeq(q, 1, Len(q) - 1)) ELSE q
Strip(q) == RStrip(LStrip(q))

Same(r) == IF r.type = "str" THEN Strip(r.orig) = Strip(r.back) ELSE r.orig = r.back

JudgeValue(r) ==
  IF ~r.present THEN "the line is missing after reading the solution back"
  ELSE IF ~Same(r) THEN "reads back as a different " \o r.type \o " value"
  ELSE ""

JudgeYear(y) ==
  IF y.stamped # y.solved THEN "the solution does not carry the tax year it was solved for"
  ELSE IF y.interpreted # y.solved THEN "the solution was interpreted with another year's forms"
  ELSE IF y.extra # <<>> THEN "reading back produced lines that were not solved"
  ELSE ""

VARIABLE k
Init == k = 0
NV == Len(F.values)
NY == Len(F.years)
Next == /\ k < NV + NY /\ k' = k + 1
        /\ IF k < NV THEN LET m == JudgeValue(F.values[k + 1]) IN m = "" \/ PrintT("C14|val|" \o ToString(k + 1) \o "|" \o m \o "|")
           ELSE LET m == JudgeYear(F.years[k + 1 - NV]) IN m = "" \/ PrintT("C14|year|" \o ToString(k + 1 - NV) \o "|" \o m \o "|")
Spec == Init /\ [][Next]_k
=============================================================================
