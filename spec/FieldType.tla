----------------------------- MODULE FieldType -----------------------------
(***************************************************************************)
(* C12: stored line values have the declared type, rounding and blank      *)
(* convention.                                                             *)
(* StoreResult(decl, places, raw) -- what storing the result of a line     *)
(* definition must do:                                                     *)
(*   raw is None or blank text        -> the type's empty value            *)
(*   raw has EXACTLY the declared type -> raw (money: rounded to `places`) *)
(*   anything else (bool for an integer line, int for a money line, a      *)
(*   subclass, a list ...)             -> TypeError naming the line        *)
(* Observations (HV_FT_FILE):                                              *)
(*  cases : real TypedField.value() on synthetic definitions               *)
(*    [cid, decl, places, rawtype, rawblank, rawexact, outcome ("value" |  *)
(*     "TypeError" | other), names_line, vtype, isempty, fracdigits,       *)
(*     milli_raw, scaled_stored, small]                                    *)
(*  stored : every value stored by explored real returns                   *)
(*    [sid, decl, places, vtype, fracdigits]                               *)
(*  mirror : [form, input, itype, ftype]  input-only forms                 *)
(***************************************************************************)
EXTENDS Integers, Sequences, FiniteSets, TLC, Json, IOUtils

F == TLCEval(JsonDeserialize(IOEnv.HV_FT_FILE))

PyType(decl) == CASE decl = "FloatField" -> "float" [] decl = "IntegerField" -> "int" [] decl = "BooleanField" -> "bool"
                  [] decl = "StringField" -> "str" [] decl = "EnumField" -> "enum"

Expected(c) == IF c.rawtype = "NoneType" \/ c.rawblank THEN "empty"
               ELSE IF c.rawexact THEN "value" ELSE "TypeError"

Abs(x) == IF x < 0 THEN 0 - x ELSE x

JudgeCase(c) ==
  LET e == Expected(c) IN
  IF e = "TypeError" THEN
       (IF c.outcome # "TypeError" THEN "a result of type " \o c.rawtype \o " on a " \o c.decl \o " was " \o (IF c.outcome = "value" THEN "stored or coerced" ELSE c.outcome) \o " instead of rejected"
        ELSE IF ~c.names_line THEN "the type error does not name the line" ELSE "")
  ELSE IF c.outcome # "value" THEN "a legitimate result was not stored: " \o c.outcome
  ELSE IF e = "empty" THEN
       (IF ~c.isempty THEN "a declined / blank result is not stored as the type's empty value" ELSE "")
  ELSE IF c.vtype # PyType(c.decl) THEN "stored value has type " \o c.vtype
  ELSE IF c.decl = "FloatField" /\ c.fracdigits > c.places THEN "money value is not rounded to the line's decimal places"
  ELSE IF c.decl = "FloatField" /\ c.small /\ Abs(c.milli_raw - c.scaled_stored * 1000) > 500 THEN "money value is rounded to something else than the nearest"
  ELSE ""

JudgeStored(s) ==
  IF s.vtype # PyType(s.decl) /\ ~(s.decl = "EnumField" /\ s.vtype = "NoneType") THEN "a solution holds a " \o s.vtype \o " on a " \o s.decl
  ELSE IF s.decl = "FloatField" /\ s.fracdigits > s.places THEN "a solution holds an unrounded money value"
  ELSE ""

Mirror(itype) == CASE itype \in {"StringInput", "SSNInput"} -> "StringField" [] itype = "BooleanInput" -> "BooleanField"
                   [] itype = "IntegerInput" -> "IntegerField" [] itype = "FloatInput" -> "FloatField" [] itype = "EnumInput" -> "EnumField"
                   [] OTHER -> "?"
JudgeMirror(m) == IF Mirror(m.itype) # m.ftype THEN "input-only form mirrors a " \o m.itype \o " as a " \o m.ftype ELSE ""

VARIABLE k
Init == k = 0
NC == Len(F.cases)
NS == Len(F.stored)
NM == Len(F.mirror)
Next == /\ k < NC + NS + NM /\ k' = k + 1
        /\ IF k < NC THEN LET m == JudgeCase(F.cases[k + 1]) IN m = "" \/ PrintT("C12|case|" \o ToString(k + 1) \o "|" \o m \o "|")
           ELSE IF k < NC + NS THEN LET m == JudgeStored(F.stored[k + 1 - NC]) IN m = "" \/ PrintT("C12|stored|" \o ToString(k + 1 - NC) \o "|" \o m \o "|")
           ELSE LET m == JudgeMirror(F.mirror[k + 1 - NC - NS]) IN m = "" \/ PrintT("C12|mirror|" \o ToString(k + 1 - NC - NS) \o "|" \o m \o "|")
Spec == Init /\ [][Next]_k
=============================================================================
