----------------------------- MODULE InputGate -----------------------------
(***************************************************************************)
(* C11: lines only ever see validated, correctly typed, finite inputs.     *)
(* InputStore.__getitem__ as a function: no specification -> Missing       *)
(* (not supplied) -> Invalid (fails the type's validation) -> Value.       *)
(* Observations of the REAL InputStore / prompt path (HV_IN_FILE):         *)
(*  [oid, t (type), s (text, code points), supplied, outcome ("value" |    *)
(*   "invalid" | "missing" | "error:<class>"), vtype (Python type of the   *)
(*   value), ival, cents, finite, text (code points of a textual value or  *)
(*   member name), members, blankOk]                                       *)
(***************************************************************************)
EXTENDS Lex, Json, IOUtils

Obs == TLCEval(JsonDeserialize(IOEnv.HV_IN_FILE)).obs
SeqToSet(q) == {q[k] : k \in 1..Len(q)}

Classify(o) ==
  CASE o.t = "integer" -> ClassInt(o.s)
    [] o.t = "float"   -> ClassFloat(o.s)
    [] o.t = "boolean" -> ClassBool(o.s)
    [] o.t = "enum"    -> ClassEnum(o.s, SeqToSet(o.members), o.blankOk)
    [] o.t = "ssn"     -> ClassSSN(o.s)
    [] o.t = "routing" -> ClassRouting(o.s)
    [] o.t = "account" -> ClassAccount(o.s)
    [] o.t = "prefix5" -> ClassPrefix5(o.s)
    [] o.t = "string"  -> R("must", 0)

Declared(o) ==
  CASE o.t = "integer" -> {"int"}
    [] o.t = "float"   -> {"float"}
    [] o.t = "boolean" -> {"bool"}
    [] o.t = "enum"    -> IF Strip(o.s) = <<>> THEN {"NoneType"} ELSE {"enum"}
    [] OTHER -> {"str"}

Abs(x) == IF x < 0 THEN 0 - x ELSE x

ValueOk(o, c) ==
  CASE o.t = "integer" -> o.ival = c.val
    [] o.t = "float"   -> o.finite /\ (IF c.exact THEN o.cents = c.val ELSE TRUE)
    [] o.t = "boolean" -> o.ival = c.val
    [] o.t = "enum"    -> Strip(o.s) = <<>> \/ o.text = Strip(o.s)
    [] o.t = "ssn"     -> o.text = NoHyphen(Strip(o.s))
    [] OTHER -> o.text = Strip(o.s)

Judge(o) ==
  IF ~o.supplied THEN (IF o.outcome = "missing" THEN "" ELSE "an input that was not supplied did not report missing (it defaulted or failed otherwise): " \o o.outcome)
  ELSE IF o.outcome = "missing" THEN "an input that was supplied is reported missing"
  ELSE LET c == Classify(o) IN
  IF c.cls = "reject" THEN
       (IF o.outcome = "invalid" THEN "" ELSE "text that does not denote a finite value of the type was not reported invalid: " \o o.outcome)
  ELSE IF c.cls = "must" THEN
       (IF o.outcome # "value" THEN "a plain, documented spelling was not accepted: " \o o.outcome
        ELSE IF o.vtype \notin Declared(o) THEN "the value has type " \o o.vtype
        ELSE IF ~ValueOk(o, c) THEN "the value is not what the text denotes"
        ELSE "")
  ELSE (IF o.outcome = "invalid" THEN ""
        ELSE IF o.outcome # "value" THEN "unexpected outcome " \o o.outcome
        ELSE IF o.vtype \notin Declared(o) THEN "the value has type " \o o.vtype
        ELSE IF o.t = "float" /\ ~o.finite THEN "a non-finite value reached the lines"
        ELSE IF o.t = "integer" /\ c.exact /\ c.val # o.ival THEN "the value is not what the text denotes"
        ELSE "")

VARIABLE k
Init == k = 0
Next == /\ k < Len(Obs) /\ k' = k + 1
        /\ LET m == Judge(Obs[k + 1]) IN m = "" \/ PrintT("C11|" \o ToString(Obs[k + 1].oid) \o "|" \o m \o "|")
Spec == Init /\ [][Next]_k
=============================================================================
