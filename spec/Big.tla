-------------------------------- MODULE Big --------------------------------
(***************************************************************************)
(* Natural numbers beyond TLC's 32-bit integers: little-endian sequences   *)
(* of limbs in base 10^6 (always NL limbs long).                           *)
(***************************************************************************)
EXTENDS Integers, Sequences

B  == 1000000
NL == 4                     \* up to 10^24

Zero == [k \in 1..NL |-> 0]
FromInt(n) == [k \in 1..NL |-> IF k = 1 THEN n % B ELSE IF k = 2 THEN (n \div B) % B ELSE IF k = 3 THEN (n \div B) \div B ELSE 0]
FromLimbs(q) == [k \in 1..NL |-> IF k <= Len(q) THEN q[k] ELSE 0]

RECURSIVE AddC(_, _, _, _)
AddC(a, b, k, carry) ==
  IF k > NL THEN <<>>
  ELSE LET t == a[k] + b[k] + carry IN <<t % B>> \o AddC(a, b, k + 1, t \div B)
Add(a, b) == AddC(a, b, 1, 0)

(* a - b for a >= b *)
RECURSIVE SubC(_, _, _, _)
SubC(a, b, k, borrow) ==
  IF k > NL THEN <<>>
  ELSE LET t == a[k] - b[k] - borrow IN
       IF t < 0 THEN <<t + B>> \o SubC(a, b, k + 1, 1) ELSE <<t>> \o SubC(a, b, k + 1, 0)
Sub(a, b) == SubC(a, b, 1, 0)

(* a * m for 0 <= m <= 2000 *)
RECURSIVE MulC(_, _, _, _)
MulC(a, m, k, carry) ==
  IF k > NL THEN <<>>
  ELSE LET t == a[k] * m + carry IN <<t % B>> \o MulC(a, m, k + 1, t \div B)
MulSmall(a, m) == MulC(a, m, 1, 0)

RECURSIVE CmpFrom(_, _, _)
CmpFrom(a, b, k) == IF k = 0 THEN 0 ELSE IF a[k] < b[k] THEN -1 ELSE IF a[k] > b[k] THEN 1 ELSE CmpFrom(a, b, k - 1)
Cmp(a, b) == CmpFrom(a, b, NL)
Le(a, b) == Cmp(a, b) <= 0
Lt(a, b) == Cmp(a, b) < 0
Min(a, b) == IF Le(a, b) THEN a ELSE b
AbsDiff(a, b) == IF Le(a, b) THEN Sub(b, a) ELSE Sub(a, b)
=============================================================================
