-------------------------------- MODULE Fill --------------------------------
(***************************************************************************)
(* C19: the fill step transmits values faithfully and files exactly the    *)
(* right forms.                                                            *)
(* Facts (HV_FILL_FILE):                                                   *)
(*  strings : Seq of [sid, key (Seq byte), text (Seq byte), entry (Seq     *)
(*            byte)]   the FDF entry the real _create_fdf wrote            *)
(*  fills   : Seq of [fid, forms (Seq of [name, needs, jur, seq, kind]),   *)
(*            filled (Seq of form names in the order handed to `cat`),     *)
(*            outcome ("filled" | error class),                            *)
(*            entries (Seq of [form, field, expect (Seq byte), maxlen,     *)
(*            choices (Seq of Seq byte) , entry (Seq byte)]),              *)
(*            overlong (Seq of [form, field, len, maxlen])]                *)
(***************************************************************************)
EXTENDS PdfString, FiniteSets, TLC, Json, IOUtils

F == TLCEval(JsonDeserialize(IOEnv.HV_FILL_FILE))
SeqToSet(q) == {q[k] : k \in 1..Len(q)}

(* the solution file is an INI file: surrounding whitespace of a text value does not survive it (C14), so the text that
   reaches a box is compared up to surrounding whitespace *)
IsSp(c) == c \in {32, 9, 10, 11, 12, 13}
RECURSIVE LStrip(_)
LStrip(q) == IF q # <<>> /\ IsSp(Head(q)) THEN LStrip(Tail(q)) ELSE q
RECURSIVE RStrip(_)
RStrip(q) == IF q # <<>> /\ IsSp(q[Len(q)]) THEN RStrip(SubSeq(q, 1, Len(q) - 1)) ELSE q
Strip(q) == RStrip(LStrip(q))

JudgeString(o) ==
  LET p == ParseEntry(o.entry) IN
  IF ~p.ok THEN p.why
  ELSE IF p.name # o.key THEN "the field name decodes to something else"
  ELSE IF p.value # o.text THEN "the value decodes to something else than the text"
  ELSE ""

Needing(o) == {k \in 1..Len(o.forms) : o.forms[k].needs}
Sorted(o, names) ==
  \A a, b \in 1..Len(names) : a < b =>
     LET fa == CHOOSE k \in 1..Len(o.forms) : o.forms[k].name = names[a]
         fb == CHOOSE k \in 1..Len(o.forms) : o.forms[k].name = names[b]
     IN o.forms[fa].jur < o.forms[fb].jur \/ (o.forms[fa].jur = o.forms[fb].jur /\ o.forms[fa].seq <= o.forms[fb].seq)

JudgeFill(o) ==
  IF o.outcome = "filled" THEN
     IF SeqToSet(o.filled) # {o.forms[k].name : k \in Needing(o)} THEN "the forms filled are not exactly the forms that need filing"
     ELSE IF Cardinality(SeqToSet(o.filled)) # Len(o.filled) THEN "a form is filled twice"
     ELSE IF \E k \in 1..Len(o.forms) : o.forms[k].name \in SeqToSet(o.filled) /\ o.forms[k].kind # "regular" THEN "a worksheet or input-only form is filled"
     ELSE IF ~Sorted(o, o.filled) THEN "forms are not ordered by jurisdiction and attachment sequence"
     ELSE IF o.overlong # <<>> THEN "a value longer than its box (or outside its choice list) was filled instead of stopping with an error"
     ELSE IF \E k \in 1..Len(o.entries) : ~ParseEntry(o.entries[k].entry).ok THEN "an FDF entry is malformed"
     ELSE IF \E k \in 1..Len(o.entries) : Strip(ParseEntry(o.entries[k].entry).value) # Strip(o.entries[k].expect) THEN "an FDF value differs from the mapped text (truncated or altered)"
     ELSE ""
  ELSE IF o.outcome \in {"PDFValueTooLong", "PDFInvalidChoiceValue"} THEN
     IF o.overlong = <<>> THEN "the fill stopped with " \o o.outcome \o " although every value fits"
     ELSE ""
  ELSE "the fill failed with " \o o.outcome

VARIABLE k
Init == k = 0
NS == Len(F.strings)
NF == Len(F.fills)
Next == /\ k < NS + NF /\ k' = k + 1
        /\ IF k < NS THEN LET m == JudgeString(F.strings[k + 1]) IN m = "" \/ PrintT("C19|str|" \o ToString(k + 1) \o "|" \o m \o "|")
           ELSE LET m == JudgeFill(F.fills[k + 1 - NS]) IN m = "" \/ PrintT("C19|fill|" \o ToString(k + 1 - NS) \o "|" \o m \o "|")
Spec == Init /\ [][Next]_k
=============================================================================
