------------------------------ MODULE Tracker ------------------------------
(* DependencyTracker, all histories of method calls up to a bound (see TrackerCore for the transition function) *)
EXTENDS TrackerCore

(***************************************************************************)
(* model: all histories                                                    *)
(***************************************************************************)
CONSTANTS Deps, Ws, MaxOps
VARIABLES t, pend, everMet, hist
tvars == <<t, pend, everMet, hist>>

Pairs == Deps \X Ws
TInit == /\ t = [unmet |-> <<>>, met |-> <<>>]
         /\ pend = [x \in Pairs |-> 0]        \* registered and not yet released, with multiplicity
         /\ everMet = {}
         /\ hist = 0

Add(d, w) == /\ t' = Step(t, [op |-> "add", d |-> d, w |-> w]).st
             /\ pend' = [pend EXCEPT ![<<d, w>>] = @ + 1]
             /\ UNCHANGED everMet
Meet(d) == /\ t' = Step(t, [op |-> "meet", d |-> d]).st
           /\ everMet' = everMet \cup {d}
           /\ UNCHANGED pend
(* which dependency a released waiter was waiting for: the first met name that has waiters *)
FirstServed(st) == LET RECURSIVE F(_)
                       F(m) == IF m = <<>> THEN "none" ELSE IF Head(m) \in DOMAIN st.unmet THEN Head(m) ELSE F(Tail(m))
                   IN F(st.met)
DrainNext == LET r == Step(t, [op |-> "next"]) d == FirstServed(t) IN
             /\ t' = r.st
             /\ IF r.ret = "STOP" THEN pend' = pend ELSE pend' = [pend EXCEPT ![<<d, r.ret>>] = @ - 1]
             /\ UNCHANGED everMet

TNext == /\ hist < MaxOps /\ hist' = hist + 1
         /\ \/ \E d \in Deps, w \in Ws : Add(d, w)
            \/ \E d \in Deps : Meet(d)
            \/ DrainNext
TSpec == TInit /\ [][TNext]_tvars

(* never released before: a release only ever serves a dependency that has been met; never more releases than registrations *)
NoEarlyRelease == [][\A x \in Pairs : pend'[x] < pend[x] => x[1] \in everMet]_tvars
ExactlyOnce == \A x \in Pairs : pend[x] >= 0 /\ pend[x] = Cardinality({k \in 1..(IF x[1] \in DOMAIN t.unmet THEN Len(t.unmet[x[1]]) ELSE 0) : t.unmet[x[1]][k] = x[2]})
(* never lost: when a drain stops, nothing that is due (dependency marked met and not yet dropped) is left waiting *)
NotLost == (Step(t, [op |-> "next"]).ret = "STOP") => \A d \in DOMAIN t.unmet : d \notin Range(t.met)
HasUnmetMeaning == HasUnmet(t.unmet, t.met) <=> \E d \in DOMAIN t.unmet : d \notin Range(t.met)
ClosedForm == ClosedFormAgrees(t)
Shape == \A d \in DOMAIN t.unmet : t.unmet[d] # <<>>

=============================================================================
