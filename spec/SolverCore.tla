----------------------------- MODULE SolverCore -----------------------------
(***************************************************************************)
(* Pure operators that state the bookkeeping of habutax/solver.py          *)
(* (DependencyTracker + Solver).  They are shared by                       *)
(*   - Solver.tla       (design model over abstract form programs),       *)
(*   - SolverTrace.tla  (validation of traces recorded from the real code),*)
(*   - Session.tla      (the `solve` command envelope).                    *)
(*                                                                         *)
(* A catalogue record C describes the form definitions the solver          *)
(* interprets:                                                             *)
(*   C.known  : set of catalogue form names (available_forms)              *)
(*   C.base   : [form instance -> catalogue name]  ("w-2:0" -> "w-2")      *)
(*   C.formOf : [line or input name -> form instance]  (text before ".")   *)
(*   C.lines  : [form instance -> set of line names]   (fields())          *)
(*   C.req    : [form instance -> Seq(line name)]      (required_fields()) *)
(*   C.inps   : [form instance -> set of input names]  (inputs())          *)
(*   C.rank   : [name -> Nat]  the natural order sort_keys() induces       *)
(*                                                                         *)
(* The solver state is one record s; its fields mirror Solver.__init__.    *)
(***************************************************************************)
EXTENDS Integers, Sequences, FiniteSets, TLC

Range(f) == {f[x] : x \in DOMAIN f}

Upd(f, k, v) == [x \in (DOMAIN f) \cup {k} |-> IF x = k THEN v ELSE f[x]]
Del(f, k)    == [x \in (DOMAIN f) \ {k} |-> f[x]]

RECURSIVE Rev(_)
Rev(q) == IF q = <<>> THEN <<>> ELSE Append(Rev(Tail(q)), Head(q))

(***************************************************************************)
(* _add_unattempted: extend, then a stable sort by sort_keys.  The queue   *)
(* is always sorted, so inserting x after every element of rank <= x's is  *)
(* the same thing.                                                         *)
(***************************************************************************)
InsertOne(q, x, rank) ==
  LET k == Cardinality({i \in 1..Len(q) : rank[q[i]] <= rank[x]})
  IN  SubSeq(q, 1, k) \o <<x>> \o SubSeq(q, k + 1, Len(q))

RECURSIVE InsertAll(_, _, _)
InsertAll(q, xs, rank) ==
  IF xs = <<>> THEN q ELSE InsertAll(InsertOne(q, Head(xs), rank), Tail(xs), rank)

SortByRank(xs, rank) == InsertAll(<<>>, xs, rank)      \* sorted(xs, key=sort_keys), stable

RECURSIVE SetToSeq(_)
SetToSeq(T) == IF T = {} THEN <<>>
               ELSE LET x == CHOOSE y \in T : TRUE IN <<x>> \o SetToSeq(T \ {x})

RemoveAt(q, i) == SubSeq(q, 1, i - 1) \o SubSeq(q, i + 1, Len(q))

(***************************************************************************)
(* DependencyTracker                                                       *)
(*   U : [dependency name -> Seq(waiter)]   (_unmet; a key's list is never *)
(*                                           empty)                        *)
(*   M : Seq(dependency name)               (_met)                         *)
(***************************************************************************)
Reg(U, d, w) == Upd(U, d, IF d \in DOMAIN U THEN Append(U[d], w) ELSE <<w>>)   \* add_unmet

HasMet(M) == M # <<>>                                                            \* has_met

HasUnmet(U, M) == \E d \in DOMAIN U : Len(U[d]) > 0 /\ d \notin Range(M)         \* has_unmet

(* list(met_dependents()): the generator pops waiters of the first met     *)
(* dependency from the END of its list, and drops the dependency from _met *)
(* only when its list is empty; a met name nobody waits for is dropped.    *)
RECURSIVE DrainSeq(_, _)
DrainSeq(U, M) ==
  IF M = <<>> THEN <<>>
  ELSE IF Head(M) \in DOMAIN U
       THEN Rev(U[Head(M)]) \o DrainSeq(Del(U, Head(M)), Tail(M))
       ELSE DrainSeq(U, Tail(M))

DrainRest(U, M) == [d \in (DOMAIN U) \ Range(M) |-> U[d]]

(***************************************************************************)
(* Solver state                                                            *)
(***************************************************************************)
InitSolver(cfg0, vals0, fmap0, hasPrompt) ==
  [ pc      |-> "start",
    forms   |-> {},  specs |-> {},  fmap |-> fmap0,  solving |-> {},
    queue   |-> <<>>,
    fdU     |-> <<>>, fdM |-> <<>>, idU |-> <<>>, idM |-> <<>>,
    vals    |-> vals0, cfg |-> cfg0,
    unimpl  |-> <<>>,
    refused |-> ~hasPrompt,
    buf     |-> <<>>, askList |-> <<>>,
    solved  |-> FALSE,
    abort   |-> "" ]

Abort(st, kind) == [st EXCEPT !.pc = "abort", !.abort = kind]
Aborted(st)     == st.pc = "abort"

KnownForm(C, f) == f \in DOMAIN C.base /\ C.base[f] \in C.known

(* _add_form(f) with input_only=False.  The two asserts in the code compare *)
(* objects with string keys and never fire, so re-adding a form silently   *)
(* re-schedules its required lines.                                        *)
AddForm(st, C, f) ==
  [st EXCEPT !.forms   = @ \cup {f},
             !.specs   = @ \cup C.inps[f],
             !.fmap    = @ \cup C.lines[f],
             !.queue   = InsertAll(@, C.req[f], C.rank),
             !.solving = @ \cup Range(C.req[f])]

(* _add_input_spec(i): load the inputs of i's form (input_only=True).  If  *)
(* the form does not declare i the retry recurses without bound.           *)
LoadSpec(st, C, i) ==
  LET f == C.formOf[i] IN
  IF ~KnownForm(C, f) THEN Abort(st, "unsupported")
  ELSE IF i \notin C.inps[f] THEN Abort([st EXCEPT !.specs = @ \cup C.inps[f]], "recursion")
  ELSE [st EXCEPT !.specs = @ \cup C.inps[f]]

(***************************************************************************)
(* The bookkeeping of one _attempt_field(line) given the outcome of        *)
(* evaluating the line definition (after any input-spec loads):            *)
(*   [o |-> "val", v |-> value]     value stored, dependency met           *)
(*   [o |-> "nofield", n |-> d]     UnmetDependency(d)                     *)
(*   [o |-> "noinput", n |-> i]     MissingInput(i)                        *)
(*   [o |-> "unimpl", n |-> name]   FieldNotImplemented(name)              *)
(*   [o |-> "raise", k |-> kind]    any other exception: leaves solve()    *)
(***************************************************************************)
ApplyFinal(st, C, l, r) ==
  CASE r.o = "val"     -> [st EXCEPT !.vals = Upd(@, l, r.v), !.fdM = Append(@, l)]
    [] r.o = "unimpl"  -> [st EXCEPT !.unimpl = Append(@, r.n)]
    [] r.o = "noinput" -> [st EXCEPT !.idU = Reg(@, r.n, l)]
    [] r.o = "raise"   -> Abort(st, r.k)
    [] r.o = "nofield" ->
         LET d == r.n IN
         IF d \in st.solving THEN [st EXCEPT !.fdU = Reg(@, d, l)]
         ELSE IF d \in st.fmap
              THEN [st EXCEPT !.fdU = Reg(@, d, l), !.queue = InsertOne(@, d, C.rank),
                              !.solving = @ \cup {d}]
         ELSE LET f == C.formOf[d] IN
              IF ~KnownForm(C, f) THEN Abort(st, "unsupported")
              ELSE LET a == AddForm(st, C, f) IN
                   IF d \notin a.fmap THEN Abort(a, "assert")
                   ELSE [a EXCEPT !.fdU = Reg(@, d, l), !.queue = InsertOne(@, d, C.rank),
                                  !.solving = @ \cup {d}]

(***************************************************************************)
(* The silent control steps of solve()'s loop (no line is evaluated, no    *)
(* prompt shown).  pc values:                                              *)
(*   test      the outer while condition                                   *)
(*   pop       inner while: pop and attempt until the queue is empty       *)
(*   fdrain    sorted(field_dependencies.met_dependents())                 *)
(*   fattempt  attempt the drained waiters                                 *)
(*   asksnap   `if not refused`: snapshot sorted(unmet input names)        *)
(*   ask       prompt for each, stop at the first refusal                  *)
(*   idrain    list(input_dependencies.met_dependents())                   *)
(*   iattempt  attempt the drained waiters                                 *)
(*   finish    compute the verdict                                         *)
(***************************************************************************)
LoopCond(st) ==
  \/ st.queue # <<>>
  \/ HasMet(st.idM)
  \/ (HasUnmet(st.idU, st.idM) /\ ~st.refused)
  \/ HasMet(st.fdM)

Verdict(st) ==
  /\ ~HasUnmet(st.fdU, st.fdM)
  /\ ~HasUnmet(st.idU, st.idM)
  /\ st.unimpl = <<>>

SilentEnabled(st) ==
  \/ st.pc = "test"
  \/ st.pc = "pop" /\ st.queue = <<>>
  \/ st.pc = "fattempt" /\ st.buf = <<>>
  \/ st.pc = "asksnap"
  \/ st.pc = "ask" /\ st.askList = <<>>
  \/ st.pc = "iattempt" /\ st.buf = <<>>

SilentStep(st, C) ==
  CASE st.pc = "test"     -> [st EXCEPT !.pc = IF LoopCond(st) THEN "pop" ELSE "finish"]
    [] st.pc = "pop"      -> [st EXCEPT !.pc = "fdrain"]
    [] st.pc = "fattempt" -> [st EXCEPT !.pc = "asksnap"]
    [] st.pc = "asksnap"  -> IF st.refused THEN [st EXCEPT !.pc = "idrain"]
                             ELSE [st EXCEPT !.pc = "ask",
                                             (* keys of _unmet; the code sorts them *)
                                             !.askList = SortByRank(SetToSeq(DOMAIN st.idU), C.rank)]
    [] st.pc = "ask"      -> [st EXCEPT !.pc = "idrain"]
    [] st.pc = "iattempt" -> [st EXCEPT !.pc = "test"]

RECURSIVE Norm(_, _)
Norm(st, C) == IF SilentEnabled(st) THEN Norm(SilentStep(st, C), C) ELSE st

(* the two drains *)
FDrainStep(st, C) ==
  [st EXCEPT !.buf = SortByRank(DrainSeq(st.fdU, st.fdM), C.rank),
             !.fdU = DrainRest(st.fdU, st.fdM), !.fdM = <<>>, !.pc = "fattempt"]

IDrainStep(st) ==
  [st EXCEPT !.buf = DrainSeq(st.idU, st.idM),
             !.idU = DrainRest(st.idU, st.idM), !.idM = <<>>, !.pc = "iattempt"]

(* the prompt: _attempt_input *)
AskAnswer(st, i, v) ==
  [st EXCEPT !.cfg = Upd(@, i, v), !.idM = Append(@, i), !.askList = Tail(@)]
AskRefuse(st) == [st EXCEPT !.refused = TRUE, !.askList = <<>>]

FinishStep(st) == [st EXCEPT !.pc = "done", !.solved = Verdict(st)]

(* solve(): add the requested forms in order, then the explicitly requested lines *)
RECURSIVE StartForms(_, _, _)
StartForms(st, C, fs) ==
  IF fs = <<>> \/ Aborted(st) THEN st
  ELSE IF ~KnownForm(C, Head(fs)) THEN Abort(st, "unsupported")
  ELSE StartForms(AddForm(st, C, Head(fs)), C, Tail(fs))

RECURSIVE StartLines(_, _, _)
StartLines(st, C, ls) ==
  IF ls = <<>> \/ Aborted(st) THEN st
  ELSE IF Head(ls) \notin st.fmap THEN Abort(st, "keyerror")
  ELSE StartLines([st EXCEPT !.queue = InsertOne(@, Head(ls), C.rank)], C, Tail(ls))

StartStep(st, C, request, fieldNames) ==
  LET a == StartForms(st, C, request) IN
  IF Aborted(a) THEN a
  ELSE LET b == StartLines(a, C, fieldNames) IN
       IF Aborted(b) THEN b
       ELSE [b EXCEPT !.solving = @ \cup Range(fieldNames), !.pc = "test"]

Terminal(st) == st.pc \in {"done", "abort"}

(***************************************************************************)
(* Abstract line definitions (decision trees) and their evaluation.        *)
(*   [k |-> "in", n |-> input, br |-> <<b0, b1>>]   i[n]; branch on value  *)
(*   [k |-> "ln", n |-> line,  br |-> <<b0, b1>>]   v[n]; branch on value  *)
(*   [k |-> "fo", f |-> form,  b |-> b]             s.form(f)              *)
(*   [k |-> "ret", e |-> "const"/"acc", c |-> 0/1]  return                 *)
(*   [k |-> "none"]  return None (blank)   [k |-> "unimpl"]  [k |-> "raise"]*)
(* Values are 0/1; "acc" returns the xor of everything read, so a stale    *)
(* read changes the result.  An input whose text is invalid is "bad".      *)
(***************************************************************************)
BadVal == 2   \* an input whose text does not validate

Branch(b, v) == b.br[IF Len(b.br) = 1 THEN 1 ELSE v + 1]

RECURSIVE Eval(_, _, _, _, _, _, _)
Eval(b, acc, rd, cfg, vals, specs, forms) ==
  CASE b.k = "ret"    -> [o |-> "val", v |-> IF b.e = "acc" THEN acc ELSE b.c, rd |-> rd]
    [] b.k = "none"   -> [o |-> "val", v |-> 0, rd |-> rd]
    [] b.k = "unimpl" -> [o |-> "unimpl", rd |-> rd]
    [] b.k = "raise"  -> [o |-> "raise", k |-> "raise", rd |-> rd]
    [] b.k = "fo"     -> IF b.f \in forms THEN Eval(b.b, acc, rd, cfg, vals, specs, forms)
                         ELSE [o |-> "raise", k |-> "keyerror", rd |-> rd]
    [] b.k = "in"     -> IF b.n \notin specs THEN [o |-> "nospec", n |-> b.n, rd |-> rd]
                         ELSE IF b.n \notin DOMAIN cfg THEN [o |-> "noinput", n |-> b.n, rd |-> rd]
                         ELSE IF cfg[b.n] = BadVal THEN [o |-> "raise", k |-> "invalid", rd |-> rd]
                         ELSE Eval(Branch(b, cfg[b.n]), (acc + cfg[b.n]) % 2,
                                   rd \cup {<<b.n, cfg[b.n]>>}, cfg, vals, specs, forms)
    [] b.k = "ln"     -> IF b.n \notin DOMAIN vals THEN [o |-> "nofield", n |-> b.n, rd |-> rd]
                         ELSE Eval(Branch(b, vals[b.n]), (acc + vals[b.n]) % 2,
                                   rd \cup {<<b.n, vals[b.n]>>}, cfg, vals, specs, forms)

(* one _attempt_field(l) on a program: evaluate, load input specs and retry *)
(* while the evaluation stops at an unknown input name.                    *)
RECURSIVE AttemptProg(_, _, _, _)
AttemptProg(st, C, body, l) ==
  LET r == Eval(body[l], 0, {}, st.cfg, st.vals, st.specs, st.forms) IN
  IF r.o = "nospec"
  THEN LET s2 == LoadSpec(st, C, r.n) IN
       IF Aborted(s2) THEN s2 ELSE AttemptProg(s2, C, body, l)
  ELSE ApplyFinal(st, C, l, IF r.o = "unimpl" THEN [o |-> "unimpl", n |-> l] ELSE r)


(***************************************************************************)
(* State predicates shared by the design model and the trace validation    *)
(***************************************************************************)
Waiters(U) == UNION {Range(U[d]) : d \in DOMAIN U}

NoSilentSuccessP(st) ==
  (st.pc = "done" /\ st.solved) =>
      /\ st.unimpl = <<>>
      /\ DOMAIN st.idU = {}
      /\ DOMAIN st.fdU = {}
      /\ \A l \in st.solving : l \in DOMAIN st.vals

(* in a failed solve every demanded line without a value is accounted for: *)
(* reported unimplemented, waiting for a missing input that is named, or   *)
(* blocked behind a line that is named                                     *)
FailureIsNamedP(st) ==
  (st.pc = "done" /\ ~st.solved) =>
      /\ \A l \in st.solving : l \notin DOMAIN st.vals =>
            \/ l \in Range(st.unimpl)
            \/ l \in Waiters(st.idU)
            \/ l \in Waiters(st.fdU)
      /\ st.unimpl # <<>> \/ DOMAIN st.idU # {} \/ DOMAIN st.fdU # {}
      /\ \A i \in DOMAIN st.idU : i \notin DOMAIN st.cfg
      /\ \A d \in DOMAIN st.fdU : d \notin DOMAIN st.vals

NoLostWaiterP(st) ==
  st.pc = "done" =>
      /\ st.fdM = <<>> /\ st.idM = <<>> /\ st.queue = <<>> /\ st.buf = <<>>
      /\ \A d \in DOMAIN st.fdU : d \notin DOMAIN st.vals
      /\ \A i \in DOMAIN st.idU : i \notin DOMAIN st.cfg
      /\ \A l \in st.solving : l \in DOMAIN st.vals \/ l \in Range(st.unimpl)
                                \/ l \in Waiters(st.fdU) \/ l \in Waiters(st.idU)

(* a dependency is only ever marked met when it has a value *)
NoEarlyReleaseP(st) ==
  /\ \A k \in 1..Len(st.fdM) : st.fdM[k] \in DOMAIN st.vals
  /\ \A k \in 1..Len(st.idM) : st.idM[k] \in DOMAIN st.cfg

ShapeP(st) ==
  /\ \A d \in DOMAIN st.fdU : st.fdU[d] # <<>>
  /\ \A d \in DOMAIN st.idU : st.idU[d] # <<>>
  /\ \A k \in 1..Len(st.queue) : st.queue[k] \in st.solving

=============================================================================
