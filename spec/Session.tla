------------------------------ MODULE Session ------------------------------
(***************************************************************************)
(* The `habutax solve --prompt-missing --writeback-input` command around   *)
(* the solver: the input file on disk, the in-memory inputs shared with    *)
(* the solver, the answers typed so far, and the write-back that happens   *)
(* in a `finally` block whatever way solve() ends.  A second session is    *)
(* then started on the written file.                                       *)
(*                                                                         *)
(* The user may, at ANY prompt: answer, press Ctrl-C (a refusal: the solve *)
(* goes on without further prompts), or the input may end (EOFError leaves *)
(* solve()); a line may raise, an unsupported form may be reached, the file*)
(* may hold invalid text.  TLC explores every interruption point and kind. *)
(***************************************************************************)
EXTENDS Solver

CONSTANT WriteBackInFinally      \* TRUE: as implemented.  FALSE: a design that writes back only after a normal return

VARIABLES disk,      \* the input file: [input -> value]
          answered,  \* [input -> value] typed by the user in session 1
          run,       \* 1 or 2
          ph         \* "solve" | "written" | "lost" | "end"

svars == <<s, p, g, disk, answered, run, ph>>

SInit ==
  /\ Init
  /\ ~s.refused                  \* --prompt-missing
  /\ disk = s.cfg
  /\ answered = <<>>
  /\ run = 1
  /\ ph = "solve"

SolveStep ==
  /\ ph = "solve" /\ ~Terminal(s)
  /\ Next
  /\ answered' = IF run = 1
                 THEN [i \in (DOMAIN s'.cfg) \ (DOMAIN g.cfg0) |-> s'.cfg[i]]
                 ELSE answered
  /\ UNCHANGED <<disk, run, ph>>

(* solve() has returned or raised: the finally block writes the in-memory inputs back *)
WriteBack ==
  /\ ph = "solve" /\ Terminal(s)
  /\ IF WriteBackInFinally \/ s.pc = "done"
     THEN disk' = s.cfg /\ ph' = "written"
     ELSE disk' = disk /\ ph' = "lost"
  /\ UNCHANGED <<s, p, g, answered, run>>

(* the user runs the command again on the written file *)
Rerun ==
  /\ ph \in {"written", "lost"} /\ run = 1
  /\ s' = InitSolver(disk, <<>>, {}, TRUE)
  /\ run' = 2 /\ ph' = "solve"
  /\ UNCHANGED <<p, g, disk, answered>>

Finished ==
  /\ ph \in {"written", "lost"} /\ run = 2
  /\ ph' = "end"
  /\ UNCHANGED <<s, p, g, disk, answered, run>>

SNext == SolveStep \/ WriteBack \/ Rerun \/ Finished
SSpec == SInit /\ [][SNext]_svars /\ WF_svars(SNext)

(***************************************************************************)
(* C20                                                                     *)
(***************************************************************************)
(* once session 1 has ended the file holds everything it held before plus every answer given *)
NothingLost ==
  (run = 2 \/ ph \in {"written", "lost"}) =>
      /\ \A i \in DOMAIN g.cfg0 : i \in DOMAIN disk /\ disk[i] = g.cfg0[i]
      /\ \A i \in DOMAIN answered : i \in DOMAIN disk /\ disk[i] = answered[i]

(* an answer is in the in-memory inputs from the moment it is given (so a write-back at any later point has it) *)
AnswersHeld == run = 1 => \A i \in DOMAIN answered : i \in DOMAIN s.cfg /\ s.cfg[i] = answered[i]

(* the second session never asks for something the file holds *)
RerunAsksNothingAnswered ==
  (run = 2 /\ s.pc = "ask") => \A k \in 1..Len(s.askList) :
      s.askList[k] \notin DOMAIN answered /\ s.askList[k] \notin DOMAIN g.cfg0

SessionEnds == <>(ph = "end")
=============================================================================
