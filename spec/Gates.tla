------------------------------- MODULE Gates -------------------------------
(***************************************************************************)
(* C09: declaring an unsupported tax situation never yields a solved       *)
(* return.                                                                 *)
(*                                                                         *)
(* Catalogue (data/gates.json, frozen and reviewed; shipped in the facts   *)
(* file): Seq of [input, affirmative, exempt_readers, years].  An input    *)
(* instance name such as "8889:you.age_under_55" is reported by the        *)
(* harness with the instance removed.                                      *)
(* Observations: Seq of [oid, year, solved, reads (Seq of [g, val, reader])*)
(*   limits (Seq of [name, exceeded])]                                     *)
(* The invariant is evaluated on the trace summary of EVERY explored real  *)
(* run (base scenarios and the runs with one gate flipped).                *)
(***************************************************************************)
EXTENDS Integers, Sequences, FiniteSets, TLC, Json, IOUtils

F == TLCEval(JsonDeserialize(IOEnv.HV_FACTS_FILE))
Cat == F.gates
SeqToSet(q) == {q[k] : k \in 1..Len(q)}

IsGateRead(o, r) ==
  \E k \in 1..Len(Cat) :
     /\ Cat[k].input = r.g
     /\ Cat[k].affirmative = r.val
     /\ ToString(o.year) \in SeqToSet(Cat[k].years)
     /\ r.reader \notin SeqToSet(Cat[k].exempt_readers)

AffirmativeReads(o) == {j \in 1..Len(o.reads) : IsGateRead(o, o.reads[j])}
ExceededLimits(o)   == {j \in 1..Len(o.limits) : o.limits[j].exceeded}

(* the property *)
GateHolds(o)  == o.solved => AffirmativeReads(o) = {}
LimitHolds(o) == o.solved => ExceededLimits(o) = {}

VARIABLE k
Init == k = 0
Next == /\ k < Len(F.obs) /\ k' = k + 1
        /\ LET o == F.obs[k + 1] IN
           /\ GateHolds(o) \/ PrintT("C09|gate|" \o ToString(o.oid) \o "|" \o ToString({o.reads[j] : j \in AffirmativeReads(o)}) \o "|")
           /\ LimitHolds(o) \/ PrintT("C09|limit|" \o ToString(o.oid) \o "|" \o ToString({o.limits[j].name : j \in ExceededLimits(o)}) \o "|")
Spec == Init /\ [][Next]_k
=============================================================================
