------------------------------- MODULE Denote -------------------------------
(***************************************************************************)
(* The declarative meaning of a solve, independent of any attempt order:   *)
(* the least (demanded lines D, participating forms F, valuation V) closed *)
(* under                                                                   *)
(*   - the required lines of the requested forms and the explicitly        *)
(*     requested lines are demanded;                                       *)
(*   - a demanded line is evaluated on (final inputs, V);                  *)
(*   - a line it stops at for lack of a value is demanded, and brings in   *)
(*     its form with all required lines if that form takes no part yet.    *)
(* Derived: unimplemented lines, missing inputs, blocking lines, the set   *)
(* of abort kinds that an evaluation can run into, the verdict.            *)
(* Nothing here mentions a queue, a tracker or a schedule.                 *)
(***************************************************************************)
EXTENDS SolverCore

AllSpecs(C) == UNION {C.inps[f] : f \in {g \in DOMAIN C.base : C.base[g] \in C.known}}
FmapOf(C, F) == UNION {C.lines[f] : f \in F}

(* outcome of evaluating line l on valuation V with every declared input known *)
EvalD(P, cfg, V, F, l) == Eval(P.body[l], 0, {}, cfg, V, AllSpecs(P.cat), F)

NospecAbort(C, i) == IF ~KnownForm(C, C.formOf[i]) THEN "unsupported" ELSE "recursion"

DInit(P) ==
  LET C  == P.cat
      F0 == Range(P.request)
  IN [D  |-> (UNION {Range(C.req[f]) : f \in F0}) \cup Range(P.fieldNames),
      F  |-> F0, V |-> <<>>, ab |-> {}]

DRound(P, cfg, d) ==
  LET C   == P.cat
      todo == {l \in d.D : l \notin DOMAIN d.V}
      R   == [l \in todo |-> EvalD(P, cfg, d.V, d.F, l)]
      newV == [l \in (DOMAIN d.V) \cup {x \in todo : R[x].o = "val"} |->
                  IF l \in DOMAIN d.V THEN d.V[l] ELSE R[l].v]
      deps == {R[l].n : l \in {x \in todo : R[x].o = "nofield"}}
      okd  == {x \in deps : KnownForm(C, C.formOf[x]) /\ x \in C.lines[C.formOf[x]]}
      newF == d.F \cup {C.formOf[x] : x \in {y \in okd : y \notin FmapOf(C, d.F)}}
      newD == d.D \cup okd \cup UNION {Range(C.req[f]) : f \in newF \ d.F}
      newab == d.ab
               \cup {R[l].k : l \in {x \in todo : R[x].o = "raise"}}
               \cup {NospecAbort(C, R[l].n) : l \in {x \in todo : R[x].o = "nospec"}}
               \cup {"unsupported" : x \in {y \in deps : ~KnownForm(C, C.formOf[y])}}
               \cup {"assert" : x \in {y \in deps : KnownForm(C, C.formOf[y]) /\ y \notin C.lines[C.formOf[y]]}}
  IN [D |-> newD, F |-> newF, V |-> newV, ab |-> newab]

RECURSIVE DClose(_, _, _)
DClose(P, cfg, d) == LET e == DRound(P, cfg, d) IN IF e = d THEN d ELSE DClose(P, cfg, e)

StartAbort(P) ==
  LET C == P.cat IN
  IF \E k \in 1..Len(P.request) : ~KnownForm(C, P.request[k]) THEN {"unsupported"}
  ELSE IF \E k \in 1..Len(P.fieldNames) : P.fieldNames[k] \notin FmapOf(C, Range(P.request)) THEN {"keyerror"}
  ELSE {}

Denotation(P, cfg) ==
  IF StartAbort(P) # {} THEN [start |-> TRUE, ab |-> StartAbort(P)]
  ELSE
  LET d   == DClose(P, cfg, DInit(P))
      open == {l \in d.D : l \notin DOMAIN d.V}
      R   == [l \in open |-> EvalD(P, cfg, d.V, d.F, l)]
  IN [start |-> FALSE, D |-> d.D, F |-> d.F, V |-> d.V, ab |-> d.ab,
      un  |-> {l \in open : R[l].o = "unimpl"},
      mi  |-> {R[l].n : l \in {x \in open : R[x].o = "noinput"}},
      bl  |-> {R[l].n : l \in {x \in open : R[x].o = "nofield"}},
      waitI |-> [i \in {R[l].n : l \in {x \in open : R[x].o = "noinput"}} |->
                     {l \in open : R[l].o = "noinput" /\ R[l].n = i}],
      waitF |-> [n \in {R[l].n : l \in {x \in open : R[x].o = "nofield"}} |->
                     {l \in open : R[l].o = "nofield" /\ R[l].n = n}],
      solved |-> open = {}]
=============================================================================
