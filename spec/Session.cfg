CONSTANTS
  Programs <- GenPrograms
  DetSched = TRUE
  EnvRefuse = TRUE
  EnvEof = TRUE
  EnvBadAnswer = TRUE
  EnvBadFile = TRUE
  Ghost = FALSE
  WriteBackInFinally = TRUE
SPECIFICATION SSpec
CHECK_DEADLOCK FALSE
INVARIANT NothingLost
INVARIANT AnswersHeld
INVARIANT RerunAsksNothingAnswered
PROPERTY SessionEnds
