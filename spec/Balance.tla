------------------------------ MODULE Balance ------------------------------
(***************************************************************************)
(* C15: a solved return balances and has no impossible negative amounts.   *)
(* Evaluated by TLC on the solutions of explored SOLVED returns (JSON,     *)
(* HV_SOL_FILE): each record has year, sid and S = [line name -> integer   *)
(* cents] for the numeric lines, R = [line name -> ratio * 100000].        *)
(***************************************************************************)
EXTENDS Integers, Sequences, FiniteSets, TLC, Json, IOUtils

Sols == TLCEval(JsonDeserialize(IOEnv.HV_SOL_FILE)).sols

G(S, n) == IF n \in DOMAIN S THEN S[n] ELSE 0
Has(S, n) == n \in DOMAIN S

FedBalance(S) ==
  Has(S, "1040.24") /\ Has(S, "1040.33") =>
     G(S, "1040.34") - G(S, "1040.37") = G(S, "1040.33") - G(S, "1040.24")
FedExclusive(S) == ~(G(S, "1040.34") > 0 /\ G(S, "1040.37") > 0)
FedRefundSplit(S) == Has(S, "1040.34") => G(S, "1040.35a") + G(S, "1040.36") = G(S, "1040.34")

(* NC D-400: line 26a (tax due) / line 28 (overpayment) against lines 19 (tax) and 25 (payments) *)
NCBalance(S) ==
  (Has(S, "nc_d-400.19") /\ Has(S, "nc_d-400.25")) =>
     /\ Has(S, "nc_d-400.26a") => (S["nc_d-400.26a"] = S["nc_d-400.19"] - S["nc_d-400.25"] /\ S["nc_d-400.25"] < S["nc_d-400.19"])
     /\ Has(S, "nc_d-400.28")  => (S["nc_d-400.28"] = S["nc_d-400.25"] - S["nc_d-400.19"] /\ S["nc_d-400.25"] >= S["nc_d-400.19"])
     /\ Has(S, "nc_d-400.34")  => S["nc_d-400.34"] = G(S, "nc_d-400.28") - G(S, "nc_d-400.33")
     /\ Has(S, "nc_d-400.27")  => S["nc_d-400.27"] = G(S, "nc_d-400.26a") + G(S, "nc_d-400.26d") + G(S, "nc_d-400.26e")
     /\ Has(S, "nc_d-400.26a") \/ Has(S, "nc_d-400.28")
     /\ ~(G(S, "nc_d-400.27") > 0 /\ G(S, "nc_d-400.34") > 0)
     (* overpayment minus amount owed equals payments minus tax *)
     /\ G(S, "nc_d-400.28") - G(S, "nc_d-400.26a") = S["nc_d-400.25"] - S["nc_d-400.19"]

(* lines the forms define as non-negative; a trailing * matches any suffix *)
NonNegForms ==
  {"1040_sa", "1040_sb", "1040_s3", "8959", "8606", "8889", "1040_qualdiv_capgain_tax_wkst",
   "nc_d-400_sa", "nc_d-400_child_deduction_wkst", "nc_d-400_consumer_use_tax_wkst", "nc_d-400_ss",
   "w-2", "1099-int", "1099-div", "1099-r", "1099-g", "1098"}
NonNegLines ==
  [f \in {"1040", "1040_s1", "1040_s8812", "8995", "nc_d-400"} |->
     CASE f = "1040" -> {"1a","1b","1c","1d","1e","1f","1g","1h","1i","1z","2a","2b","3a","3b","4a","4b","5a","5b","6a","6b","7","8","9","10",
                         "12","12a","12b","12c","13","14","15","16","17","18","19","20","21","22","23","24","25a","25b","25c","25d","26","27","27a","27b","27c","28","29","30","31","32","33","34","35a","36","37","38"}
       [] f = "1040_s1" -> {"9","10","11","12","13","14","15","16","17","18","19a","20","21","22","23","25","26"}
       [] f = "1040_s8812" -> {"1","3","4","5","6","7","8","9","10","11","12","13","14","16a","16b","17","27","14a","14b","14c","14d","14e","14f","14g","14h","14i","15a","15b","15c","15d","15e","15f","15g","15h","28a","28b"}
       [] f = "8995" -> {"4","5","6","8","9","10","12","13","14","15"}   \* 11 (taxable income before the deduction) is not floored by the form
       [] f = "nc_d-400" -> {"7","9","10a","10b","11","12a","15","16","17","18","19","20a","20b","21a","21b","21c","21d","22","23","24","25",
                             "26a","26b","26c","26d","26e","27","28","29","30","31","32","33","34"}]

(* the harness splits each name into (form without instance, line) *)
NegativeLines(o) ==
  {n \in DOMAIN o.S : /\ o.S[n] < 0
                      /\ LET f == o.formOf[n] l == o.lineOf[n] IN
                         \/ f \in NonNegForms
                         \/ (f \in DOMAIN NonNegLines /\ l \in NonNegLines[f])}

RatioBad(o) == {n \in DOMAIN o.R : o.R[n] < 0 \/ o.R[n] > 100000}

Judge(o) ==
  [bal |-> IF ~FedBalance(o.S) THEN "federal: overpayment - owed # payments - tax"
           ELSE IF ~FedExclusive(o.S) THEN "federal: both a refund and an amount owed"
           ELSE IF ~FedRefundSplit(o.S) THEN "federal: refund + applied to next year # overpayment"
           ELSE IF ~NCBalance(o.S) THEN "NC: tax due / overpayment do not balance with tax and payments"
           ELSE "",
   neg |-> NegativeLines(o), ratio |-> RatioBad(o)]

VARIABLE k
Init == k = 0
Next == /\ k < Len(Sols) /\ k' = k + 1
        /\ LET o == Sols[k + 1] j == Judge(o) IN
           PrintT("BAL|" \o ToString(o.oid) \o "|" \o j.bal \o "|" \o ToString(j.neg) \o "|" \o ToString(j.ratio) \o "|")
Spec == Init /\ [][Next]_k
=============================================================================
