--------------------------- MODULE CatalogueFacts ---------------------------
(***************************************************************************)
(* C17: each year's form catalogue is consistent; status look-ups total.   *)
(* Facts (JSON, HV_FACTS_FILE) come from introspection of the current tree *)
(* and from running the real `list-forms` / `list-form-inputs` commands    *)
(* and the real Form.threshold():                                          *)
(*   forms  : Seq of [year, name, instance, inst_ok, tax_year, meta (set   *)
(*            of metadata attributes present), fileable, inputs, lines,    *)
(*            listed_section, listed (input names parsed back from the     *)
(*            printed template), list_ok, in_list_forms]                   *)
(*   tables : Seq of [year, form, name, rows (Seq of [keys, val]),         *)
(*            got ([status -> value digest or "ERR"])]                     *)
(*   names  : [year -> Seq of catalogue form names]                        *)
(*   statuses : [year -> Seq of the five status names]                     *)
(***************************************************************************)
EXTENDS Integers, Sequences, FiniteSets, TLC, Json, IOUtils

F == TLCEval(JsonDeserialize(IOEnv.HV_FACTS_FILE))

SeqToSet(q) == {q[k] : k \in 1..Len(q)}
NoDup(q) == Cardinality(SeqToSet(q)) = Len(q)

(* Form.threshold(name, status): the rows whose key is, or contains, the status *)
Matching(rows, st) == {k \in 1..Len(rows) : st \in SeqToSet(rows[k].keys)}
Lookup(rows, st) == rows[CHOOSE k \in Matching(rows, st) : \A j \in Matching(rows, st) : k <= j].val

FormErr(f) ==
  IF ~f.inst_ok THEN "cannot be instantiated"
  ELSE IF f.tax_year # f.year THEN "declares tax year " \o ToString(f.tax_year) \o " in the " \o ToString(f.year) \o " catalogue"
  ELSE IF ~({"description", "long_description", "jurisdiction"} \subseteq SeqToSet(f.meta)) THEN "descriptive metadata missing"
  ELSE IF f.fileable /\ "sequence_no" \notin SeqToSet(f.meta) THEN "can require filing but has no attachment sequence number"
  ELSE IF ~NoDup(f.inputs) THEN "duplicate input name"
  ELSE IF ~NoDup(f.lines) THEN "duplicate line name"
  ELSE IF f.foreign # <<>> THEN "with all instances alive, a line or input of this one answers to another name: " \o ToString(f.foreign)
  ELSE IF \E n \in SeqToSet(f.badcase) : TRUE THEN "input or line name not lower-case / contains a dot: " \o ToString(f.badcase)
  ELSE IF ~f.in_list_forms THEN "not printed by list-forms"
  ELSE IF ~f.list_ok THEN "list-form-inputs output does not parse as an input file"
  ELSE IF f.listed_section # f.name THEN "list-form-inputs names section " \o f.listed_section
  ELSE IF SeqToSet(f.listed) # SeqToSet(f.inputs) THEN "list-form-inputs template does not name exactly the declared inputs"
  ELSE ""

NameErr(y) == IF NoDup(F.names[y]) THEN "" ELSE "duplicate form name in the catalogue"

TableErr(t) ==
  LET sts == SeqToSet(F.statuses[ToString(t.year)]) IN
  IF \E st \in sts : Cardinality(Matching(t.rows, st)) = 0 THEN "no value for some filing status"
  ELSE IF \E st \in sts : Cardinality(Matching(t.rows, st)) > 1 THEN "two values for one filing status"
  ELSE IF \E st \in sts : t.got[st] # Lookup(t.rows, st) THEN "Form.threshold() returns something else than the table row"
  ELSE ""

VARIABLE k
Init == k = 0
NF == Len(F.forms)
NT == Len(F.tables)
Years == DOMAIN F.names
Next == /\ k < NF + NT + 1 /\ k' = k + 1
        /\ IF k < NF THEN LET m == FormErr(F.forms[k + 1]) IN m = "" \/ PrintT("C17|form|" \o ToString(k + 1) \o "|" \o m \o "|")
           ELSE IF k < NF + NT THEN LET m == TableErr(F.tables[k + 1 - NF]) IN m = "" \/ PrintT("C17|table|" \o ToString(k + 1 - NF) \o "|" \o m \o "|")
           ELSE \A y \in Years : NameErr(y) = "" \/ PrintT("C17|names|" \o y \o "|" \o NameErr(y) \o "|")
Spec == Init /\ [][Next]_k
=============================================================================
