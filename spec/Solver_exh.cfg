\* every schedule, every initial file, every user; ghost counters off
CONSTANTS
  Programs <- GenPrograms
  DetSched = FALSE
  EnvRefuse = TRUE
  EnvEof = TRUE
  EnvBadAnswer = FALSE
  EnvBadFile = TRUE
  Ghost = FALSE
SPECIFICATION Spec
INVARIANT TypeOK
INVARIANT QueueSolving
INVARIANT NoSilentSuccess
INVARIANT FailureIsNamed
INVARIANT TerminalShape
INVARIANT FixedPoint
INVARIANT ClosureComplete
INVARIANT ClosureSound
INVARIANT EqualsDenotation
INVARIANT AbortIsDenoted
INVARIANT AskOnlyDemandedMissing
INVARIANT UnreadNotRequired
INVARIANT NoLostWaiter
INVARIANT NoEarlyRelease
PROPERTY WriteOnce
PROPERTY InputsOnlyAdded
PROPERTY NoAskAfterRefusal
PROPERTY Terminates
CHECK_DEADLOCK FALSE
