------------------------------- MODULE PdfMap -------------------------------
(***************************************************************************)
(* C18: each PDF box is filled from the line the official template assigns *)
(* to it.  Facts (HV_MAP_FILE) for every form with a template, all years:  *)
(*  maps : Seq of [mid, year, form, target, line, line_exists, kind        *)
(*          (mapping class: "text" | "button" | "choice"), maxlen (-1 none)*)
(*          truev, choices, t_exists, t_kind, t_max (-1 none), t_on (Seq of*)
(*          export values the template offers), t_opts, label (line number *)
(*          in the template's accessibility text, "" if none), lineno      *)
(*          (line number in the mapped line's name, "" if none), excused]  *)
(*  dups   : Seq of [year, form, target, n]    targets mapped n > 1 times  *)
(*  groups : Seq of [year, form, group, rows (Seq of [value, on (Seq of    *)
(*           targets that are on for that value of the driving line)])]    *)
(*  forms  : Seq of [year, form, fileable, has_template, nmaps]            *)
(***************************************************************************)
EXTENDS Integers, Sequences, FiniteSets, TLC, Json, IOUtils

F == TLCEval(JsonDeserialize(IOEnv.HV_MAP_FILE))
SeqToSet(q) == {q[k] : k \in 1..Len(q)}

(* the limit a text mapping ENFORCES when it is called: every probe text longer than the box must be refused, every     *)
(* shorter one accepted (probes: plain and negative-looking texts of length limit-1, limit, limit+1, limit+2)            *)
ProbeErr(m) ==
  LET lim == IF m.t_max >= 0 THEN m.t_max ELSE m.maxlen IN
  IF lim < 0 THEN ""
  ELSE IF \E k \in 1..Len(m.probes) : m.probes[k].len > lim /\ m.probes[k].outcome # "PDFValueTooLong"
       THEN "a text longer than the box is not refused when the mapping is applied (the limit enforced is not the template's)"
  ELSE IF \E k \in 1..Len(m.probes) : m.probes[k].len <= lim /\ m.probes[k].outcome # "ok"
       THEN "a text that fits the box is refused"
  ELSE ""

(* a box that the template formats as a social security number (AFSpecial_Format(3)) only ever receives nine digits, *)
(* with or without hyphens: texts = the non-blank values the driving line can yield (code points)                      *)
IsSsnText(t) == LET d == SelectSeq(t, LAMBDA c : c # 45) IN Len(d) = 9 /\ \A j \in 1..Len(d) : d[j] >= 48 /\ d[j] <= 57
FormatErr(m) == IF m.t_format = "ssn" /\ \E j \in 1..Len(m.texts) : ~IsSsnText(m.texts[j])
                THEN "the template formats this box as a social security number but the driving line yields other text"
                ELSE ""

JudgeMap(m) ==
  IF ~m.t_exists THEN "the mapped PDF field does not exist in the template"
  ELSE IF ~m.line_exists THEN "the mapped line does not exist"
  ELSE IF m.kind # m.t_kind /\ ~(m.kind = "text" /\ m.t_kind = "choice") THEN "a " \o m.kind \o " mapping targets a " \o m.t_kind \o " field"
  ELSE IF m.label # "" /\ m.lineno # "" /\ m.label # m.lineno /\ ~m.excused THEN "the template labels this box line " \o m.label \o " but it is filled from line " \o m.lineno
  ELSE IF m.row > 0 /\ m.idx >= 0 /\ m.idx # m.row - 1 THEN "the template puts this box in row " \o ToString(m.row) \o " of a table but it is filled from the line of entry " \o ToString(m.idx + 1)
  ELSE IF m.kind = "button" /\ m.truev \notin SeqToSet(m.t_on) THEN "check-box export value " \o m.truev \o " is not one the template offers"
  ELSE IF m.kind = "text" /\ m.t_max >= 0 /\ m.maxlen # m.t_max THEN "length limit " \o ToString(m.maxlen) \o " differs from the template's " \o ToString(m.t_max)
  ELSE IF m.kind = "choice" /\ m.t_opts # <<>> /\ ~(SeqToSet(m.choices) \subseteq SeqToSet(m.t_opts)) THEN "choice list offers values the template does not have"
  ELSE IF FormatErr(m) # "" THEN FormatErr(m)
  ELSE IF m.kind = "text" THEN ProbeErr(m)
  ELSE ""

JudgeGroup(g) == IF \E k \in 1..Len(g.rows) : Len(g.rows[k].on) > 1 THEN "two boxes of an exclusive group are on for one value of the driving line" ELSE ""

JudgeForm(f) == IF f.fileable /\ ~f.has_template THEN "can require filing but has no template"
                ELSE IF f.fileable /\ f.nmaps = 0 THEN "can require filing but has no mappings" ELSE ""

VARIABLE k
Init == k = 0
NM == Len(F.maps)
ND == Len(F.dups)
NG == Len(F.groups)
NF == Len(F.forms)
Next == /\ k < NM + ND + NG + NF /\ k' = k + 1
        /\ IF k < NM THEN LET m == JudgeMap(F.maps[k + 1]) IN m = "" \/ PrintT("C18|map|" \o ToString(k + 1) \o "|" \o m \o "|")
           ELSE IF k < NM + ND THEN PrintT("C18|dup|" \o ToString(k + 1 - NM) \o "|a template field is driven by two mappings|")
           ELSE IF k < NM + ND + NG THEN LET m == JudgeGroup(F.groups[k + 1 - NM - ND]) IN m = "" \/ PrintT("C18|group|" \o ToString(k + 1 - NM - ND) \o "|" \o m \o "|")
           ELSE LET m == JudgeForm(F.forms[k + 1 - NM - ND - NG]) IN m = "" \/ PrintT("C18|form|" \o ToString(k + 1 - NM - ND - NG) \o "|" \o m \o "|")
Spec == Init /\ [][Next]_k
=============================================================================
