----------------------------- MODULE CliReport -----------------------------
(***************************************************************************)
(* C01 at the command line: what `habutax solve` PRINTS must be the        *)
(* solver's verdict.  The reading is independent of the wording: a failed  *)
(* solve must not be announced as a success and must NAME every            *)
(* unimplemented line, missing input and blocking line somewhere in its    *)
(* report; a successful one must not be announced as a failure; an         *)
(* aborting solve ends in an error and announces no success.               *)
(* said_solved / said_failed: the report speaks of success / of failure in *)
(* any phrasing; p_*: the blamed names that occur in the report.           *)
(* Observations (HV_CLI_FILE): [oid, abort, solved, unimpl, missing,       *)
(*  blocked (Seqs of names: the in-process solver's result), exc (class    *)
(*  that escaped the command or ""), said_solved, said_failed,             *)
(*  p_unimpl, p_missing, p_blocked (Seqs of names parsed from stdout)]     *)
(***************************************************************************)
EXTENDS Integers, Sequences, FiniteSets, TLC, Json, IOUtils
Obs == TLCEval(JsonDeserialize(IOEnv.HV_CLI_FILE)).obs
S(q) == {q[k] : k \in 1..Len(q)}

Judge(o) ==
  IF o.abort # "" THEN
       (IF o.exc = "" THEN "the solver aborts but the command ends normally"
        ELSE IF o.said_solved THEN "the command printed success although the solve aborted" ELSE "")
  ELSE IF o.exc # "" THEN "the command failed with " \o o.exc \o " although the solver returns"
  ELSE IF o.solved /\ o.said_failed /\ ~o.said_solved THEN "solved, but the command reports a failure"
  ELSE IF ~o.solved /\ o.said_solved THEN "the command announces success for a failed solve"
  ELSE IF ~o.solved /\ S(o.p_unimpl) # S(o.unimpl) THEN "an unimplemented line is not named in the report"
  ELSE IF ~o.solved /\ S(o.p_missing) # S(o.missing) THEN "a missing input is not named in the report"
  ELSE IF ~o.solved /\ S(o.p_blocked) # S(o.blocked) THEN "a blocking line is not named in the report"
  ELSE ""

VARIABLE k
Init == k = 0
Next == /\ k < Len(Obs) /\ k' = k + 1
        /\ LET m == Judge(Obs[k + 1]) IN m = "" \/ PrintT("CLI|" \o ToString(Obs[k + 1].oid) \o "|" \o m \o "|")
Spec == Init /\ [][Next]_k
=============================================================================
