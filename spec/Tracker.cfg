CONSTANTS
  Deps = {"d1", "d2"}
  Ws = {"w1", "w2", "w3"}
  MaxOps = 7
SPECIFICATION TSpec
CHECK_DEADLOCK FALSE
INVARIANT ExactlyOnce
INVARIANT NotLost
INVARIANT HasUnmetMeaning
INVARIANT ClosedForm
INVARIANT Shape
PROPERTY NoEarlyRelease
