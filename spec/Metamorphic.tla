---------------------------- MODULE Metamorphic ----------------------------
(***************************************************************************)
(* C16: returns respond to input changes the way tax law requires.         *)
(* Evaluated by TLC on PAIRS of solved explored returns (HV_PAIR_FILE):    *)
(*   [pid, kind, delta (cents), A, B]                                      *)
(* A = base solution, B = transformed solution.  For kind "renumber" A and *)
(* B map line names to their TEXT and B's instance numbers have been       *)
(* mapped back by the inverse permutation; otherwise they map the lines    *)
(* named below to integer cents.                                           *)
(***************************************************************************)
EXTENDS Integers, Sequences, FiniteSets, TLC, Json, IOUtils

Pairs == TLCEval(JsonDeserialize(IOEnv.HV_PAIR_FILE)).pairs

G(S, n) == IF n \in DOMAIN S THEN S[n] ELSE 0

(* per-payer listing lines: the only lines whose content may move when copies are renumbered *)
Diff(o) == {n \in (DOMAIN o.A) \cup (DOMAIN o.B) :
              /\ n \notin {o.listing[i] : i \in 1..Len(o.listing)}
              /\ ~(n \in DOMAIN o.A /\ n \in DOMAIN o.B /\ o.A[n] = o.B[n])}

Renumber(o) == IF Diff(o) = {} THEN "" ELSE "renumbering copies changed " \o ToString(Diff(o))

Net(S) == G(S, "1040.34") - G(S, "1040.37")

MoreWages(o)  == IF G(o.B, "1040.24") >= G(o.A, "1040.24") THEN "" ELSE "more wages lowered total tax (line 24)"
MoreDeduct(o) == IF G(o.B, "1040.24") <= G(o.A, "1040.24") THEN "" ELSE "a larger deductible expense raised total tax (line 24)"
MoreWithheld(o) == IF Net(o.B) = Net(o.A) + o.delta THEN "" ELSE "an extra amount withheld did not move refund-minus-owed by the same amount"

(* the NC return: overpayment (line 28) minus tax due (line 26a), before penalties, interest and contributions; the amounts withheld of both *)
(* returns of the pair are whole dollars, so the whole-dollar rounding of the NC lines cannot blur the step                                  *)
NetNC(S) == G(S, "nc_d-400.28") - G(S, "nc_d-400.26a")
MoreWithheldNC(o) == IF NetNC(o.B) = NetNC(o.A) + o.delta THEN "" ELSE "an extra amount of N.C. tax withheld did not move the N.C. overpayment-minus-tax-due by the same amount"

Judge(o) == CASE o.kind = "renumber" -> Renumber(o)
              [] o.kind = "nc-withheld" -> MoreWithheldNC(o)
              [] o.kind = "wages"    -> MoreWages(o)
              [] o.kind = "deduct"   -> MoreDeduct(o)
              [] o.kind = "withheld" -> MoreWithheld(o)
              [] OTHER -> "unknown kind"

VARIABLE k
Init == k = 0
Next == /\ k < Len(Pairs) /\ k' = k + 1
        /\ PrintT("META|" \o ToString(Pairs[k + 1].pid) \o "|" \o Judge(Pairs[k + 1]) \o "|")
Spec == Init /\ [][Next]_k
=============================================================================
