----------------------------- MODULE SolverTrace -----------------------------
(***************************************************************************)
(* Validation of traces recorded from the REAL habutax solver against the  *)
(* operators of SolverCore.                                                *)
(*                                                                         *)
(* A batch file (JSON, path in environment variable HV_TRACE_FILE) holds   *)
(* many traces.  Each trace carries the catalogue of the forms it touched, *)
(* the start parameters and one event per specification action.  The line  *)
(* definitions of real forms are Python, so the outcome of evaluating a    *)
(* line comes from the trace; the specification checks that the outcome    *)
(* was POSSIBLE in its own current state (every logged read shows the      *)
(* value the specification holds for it, a line said to be missing really  *)
(* has no value, ...) and computes all bookkeeping itself.  After every    *)
(* event the logged projection of the implementation's private state must  *)
(* equal the specification's state.  When the trace comes from a generated *)
(* program (mode "prog") the program is known and the whole step must equal*)
(* SolverCore!AttemptProg.                                                 *)
(*                                                                         *)
(* The trace specification is deterministic and total: each event is       *)
(* consumed; the first failing check is recorded in `err` with its name    *)
(* and the trace stops there.  One VERDICT line is printed per trace.      *)
(***************************************************************************)
EXTENDS SolverCore, Json, IOUtils

Batch  == TLCEval(JsonDeserialize(IOEnv.HV_TRACE_FILE))
Traces == Batch.traces

SeqToSet(q) == {q[k] : k \in 1..Len(q)}

MkCat(T) ==
  [known  |-> SeqToSet(T.cat.known),
   base   |-> T.cat.base,
   formOf |-> T.cat.formOf,
   lines  |-> [f \in DOMAIN T.cat.lines |-> SeqToSet(T.cat.lines[f])],
   req    |-> T.cat.req,
   inps   |-> [f \in DOMAIN T.cat.inps |-> SeqToSet(T.cat.inps[f])],
   rank   |-> T.cat.rank]

Cats == TLCEval([k \in 1..Len(Traces) |-> MkCat(Traces[k])])

VARIABLES t,     \* index of the trace in the batch
          l,     \* index of the next event
          s,     \* specification state (SolverCore)
          err,   \* "" or the name of the first failing check
          rep    \* verdict printed

tvars == <<t, l, s, err, rep>>

T == Traces[t]
C == Cats[t]

Res(st, e) == [s |-> st, err |-> e]

(***************************************************************************)
(* comparison of the logged projection of the implementation state         *)
(***************************************************************************)
(* The dependency bookkeeping is compared through what it MEANS, not how it is kept: which dependencies have waiters, *)
(* and which of those have been met and not yet drained ("releasable").  A met name nobody waits for, a name met     *)
(* twice, or an emptied waiter list left behind are representation, and so is a line named twice in the list of       *)
(* unimplemented lines.                                                                                                *)
NonEmptyDeps(U) == {d \in DOMAIN U : U[d] # <<>>}
Releasable(U, M) == SeqToSet(M) \cap NonEmptyDeps(U)

ScalarErr(st, sc) ==
  IF sc.q # Len(st.queue) THEN "state: queue length"
  ELSE IF sc.vals # Cardinality(DOMAIN st.vals) THEN "state: number of stored values"
  ELSE IF sc.forms # Cardinality(st.forms) THEN "state: number of forms"
  ELSE IF sc.fdU # Cardinality(NonEmptyDeps(st.fdU)) THEN "state: unmet field dependencies"
  ELSE IF sc.fdM # Cardinality(Releasable(st.fdU, st.fdM)) THEN "state: met field dependencies"
  ELSE IF sc.idU # Cardinality(NonEmptyDeps(st.idU)) THEN "state: unmet input dependencies"
  ELSE IF sc.idM # Cardinality(Releasable(st.idU, st.idM)) THEN "state: met input dependencies"
  ELSE IF sc.unimpl # Cardinality(SeqToSet(st.unimpl)) THEN "state: unimplemented list"
  ELSE IF sc.refused # st.refused THEN "state: refused flag"
  ELSE IF sc.specs # Cardinality(st.specs) THEN "state: input specifications"
  ELSE IF sc.fmap # Cardinality(st.fmap) THEN "state: field map"
  ELSE IF sc.solving # Cardinality(st.solving) THEN "state: solving set"
  ELSE ""

(* two sequences with the same elements the same number of times *)
IsPerm(a, b) == /\ Len(a) = Len(b)
                /\ \A x \in SeqToSet(a) \cup SeqToSet(b) :
                      Cardinality({k \in 1..Len(a) : a[k] = x}) = Cardinality({k \in 1..Len(b) : b[k] = x})

(* T.det = TRUE: the implementation's own order is required everywhere;   *)
(* FALSE: orders are free (the scheduling hook permutes them, and no       *)
(* property fixes an order), contents are compared as multisets.           *)
SeqEq(a, b) == IF T.det THEN a = b ELSE IsPerm(a, b)

TrackerEq(U, J) == NonEmptyDeps(U) = NonEmptyDeps(J) /\ \A d \in NonEmptyDeps(U) : SeqEq(U[d], J[d])
ValsEq(U, J) == DOMAIN U = DOMAIN J /\ \A d \in DOMAIN U : U[d] = J[d]

SnapErr(st, sn) ==
  IF ~SeqEq(sn.queue, st.queue) THEN "snapshot: queue"
  ELSE IF ~TrackerEq(st.fdU, sn.fdU) THEN "snapshot: field tracker unmet map"
  ELSE IF Releasable(sn.fdU, sn.fdM) # Releasable(st.fdU, st.fdM) THEN "snapshot: field tracker met list"
  ELSE IF ~TrackerEq(st.idU, sn.idU) THEN "snapshot: input tracker unmet map"
  ELSE IF Releasable(sn.idU, sn.idM) # Releasable(st.idU, st.idM) THEN "snapshot: input tracker met list"
  ELSE IF SeqToSet(sn.forms) # st.forms THEN "snapshot: forms"
  ELSE IF SeqToSet(sn.specs) # st.specs THEN "snapshot: input specifications"
  ELSE IF SeqToSet(sn.fmap) # st.fmap THEN "snapshot: field map"
  ELSE IF SeqToSet(sn.solving) # st.solving THEN "snapshot: solving set"
  ELSE IF ~ValsEq(st.vals, sn.vals) THEN "snapshot: stored values"
  ELSE IF SeqToSet(sn.unimpl) # SeqToSet(st.unimpl) THEN "snapshot: unimplemented list"
  ELSE IF sn.refused # st.refused THEN "snapshot: refused flag"
  ELSE ""

StateErr(st, e) ==
  LET a == ScalarErr(st, e.sc) IN
  IF a # "" THEN a
  ELSE IF "snap" \in DOMAIN e THEN SnapErr(st, e.snap) ELSE ""

(* design invariants, evaluated on every state of every validated trace *)
InvErr(st) ==
  IF ~NoSilentSuccessP(st) THEN "invariant NoSilentSuccess"
  ELSE IF ~FailureIsNamedP(st) THEN "invariant FailureIsNamed"
  ELSE IF ~NoLostWaiterP(st) THEN "invariant NoLostWaiter"
  ELSE IF ~NoEarlyReleaseP(st) THEN "invariant NoEarlyRelease"
  ELSE IF ~ShapeP(st) THEN "invariant Shape"
  ELSE ""

(***************************************************************************)
(* attempt                                                                 *)
(***************************************************************************)
MaxRank(q) == CHOOSE m \in {C.rank[q[k]] : k \in 1..Len(q)} : \A k \in 1..Len(q) : C.rank[q[k]] <= m
MinRank(q) == CHOOSE m \in {C.rank[q[k]] : k \in 1..Len(q)} : \A k \in 1..Len(q) : C.rank[q[k]] >= m

LineAllowed(st, line) ==
  CASE st.pc = "pop"      -> /\ line \in Range(st.queue)
                             /\ T.det => C.rank[line] = MaxRank(st.queue)
    [] st.pc = "fattempt" -> /\ line \in Range(st.buf)
                             /\ T.det => C.rank[line] = MinRank(st.buf)
    [] st.pc = "iattempt" -> /\ line \in Range(st.buf)
                             /\ T.det => line = Head(st.buf)
    [] OTHER -> FALSE

LastIndex(q, x)  == CHOOSE k \in 1..Len(q) : q[k] = x /\ \A j \in (k + 1)..Len(q) : q[j] # x
FirstIndex(q, x) == CHOOSE k \in 1..Len(q) : q[k] = x /\ \A j \in 1..(k - 1) : q[j] # x

TakeLine(st, line) ==
  IF st.pc = "pop" THEN [st EXCEPT !.queue = RemoveAt(@, LastIndex(@, line))]
  ELSE [st EXCEPT !.buf = RemoveAt(@, FirstIndex(@, line))]

(* loads: every input-spec load must be for an input name the solver does not know yet *)
RECURSIVE DoLoads(_, _)
DoLoads(st, loads) ==
  IF loads = <<>> \/ Aborted(st) THEN Res(st, "")
  ELSE IF Head(loads) \in st.specs THEN Res(st, "attempt: input specification loaded for a known input")
  ELSE IF Head(loads) \notin DOMAIN C.formOf THEN Res(st, "attempt: load of a name outside the catalogue header")
  ELSE DoLoads(LoadSpec(st, C, Head(loads)), Tail(loads))

ReadOk(st, r) ==
  IF r[1] = "ln" THEN r[2] \in DOMAIN st.vals /\ st.vals[r[2]] = r[3]
  ELSE /\ r[2] \in st.specs
       /\ r[2] \in DOMAIN st.cfg
       /\ IF T.mode = "real" THEN st.cfg[r[2]] \in {"?", r[3]} ELSE st.cfg[r[2]] = r[3]

(* remember the typed value first seen for an input that came from the file *)
RECURSIVE LearnReads(_, _)
LearnReads(cfg, rs) ==
  IF rs = <<>> THEN cfg
  ELSE LET r == Head(rs) IN
       LearnReads(IF r[1] = "in" /\ r[2] \in DOMAIN cfg THEN Upd(cfg, r[2], r[3]) ELSE cfg, Tail(rs))

OutcomePossible(st, o) ==
  CASE o.o = "val"     -> TRUE
    [] o.o = "nofield" -> o.n \notin DOMAIN st.vals /\ o.n \in DOMAIN C.formOf
    [] o.o = "noinput" -> o.n \in st.specs /\ o.n \notin DOMAIN st.cfg
    [] o.o = "unimpl"  -> TRUE
    [] o.o = "raise"   -> TRUE
    [] OTHER -> FALSE

StepAttempt(st, e) ==
  IF ~LineAllowed(st, e.line) THEN Res(st, "attempt: line " \o e.line \o " is not the one the schedule allows (pc=" \o st.pc \o ")")
  ELSE
  LET st1 == TakeLine(st, e.line)
      ld  == DoLoads(st1, e.loads)
      st2 == ld.s
  IN
  IF ld.err # "" THEN ld
  ELSE IF Aborted(st2) THEN                         \* a load ran into an unsupported form / undeclared input
       IF e.esc # st2.abort THEN Res(st2, "attempt: a spec load must abort with " \o st2.abort \o ", implementation: " \o e.esc)
       ELSE Res(st2, "")
  ELSE IF e.out.o = "nospec" THEN Res(st2, "attempt: evaluation stopped at an unknown input although its form's inputs were loadable")
  ELSE IF \E k \in 1..Len(e.reads) : e.reads[k][1] = "in" /\ e.reads[k][2] \in st2.specs /\ e.reads[k][2] \notin DOMAIN st2.cfg
       THEN Res(st2, "attempt: line " \o e.line \o " was handed a value for an input that was never supplied (stale or phantom read; a needed input is missing)")
  ELSE IF \E k \in 1..Len(e.reads) : ~ReadOk(st2, e.reads[k])
       THEN Res(st2, "attempt: line " \o e.line \o " read a value that differs from the store (stale or phantom read)")
  ELSE IF ~OutcomePossible(st2, e.out) THEN Res(st2, "attempt: outcome " \o e.out.o \o " of " \o e.line \o " is impossible in the current state")
  ELSE
  LET st2b == [st2 EXCEPT !.cfg = LearnReads(@, e.reads)]
      st3  == ApplyFinal(st2b, C, e.line, e.out)
  IN
  IF st3.forms # st1.forms \cup SeqToSet(e.adds) THEN Res(st3, "attempt: forms added differ from the specification's")
  ELSE IF Aborted(st3) # (e.esc # "") THEN Res(st3, "attempt: abort expected=" \o (IF Aborted(st3) THEN st3.abort ELSE "none") \o " implementation=" \o e.esc)
  ELSE IF Aborted(st3) /\ st3.abort # e.esc THEN Res(st3, "attempt: abort kind " \o st3.abort \o " expected, implementation: " \o e.esc)
  ELSE IF T.mode = "prog" /\ e.line \in DOMAIN T.body /\ AttemptProg(st1, C, T.body, e.line) # st3
       THEN Res(st3, "attempt: step differs from the program's evaluation (AttemptProg) for " \o e.line)
  ELSE Res(st3, StateErr(st3, e))

(***************************************************************************)
(* drains, prompts, finish, abort                                          *)
(***************************************************************************)
StepDrain(st, e) ==
  IF e.which = "f" THEN
       IF st.pc # "fdrain" THEN Res(st, "drain: field tracker drained in phase " \o st.pc)
       ELSE IF ~SeqEq(e.items, DrainSeq(st.fdU, st.fdM)) THEN Res(st, "drain: released field waiters differ (lost, duplicated or early release)")
       ELSE LET st2 == FDrainStep(st, C) IN Res(st2, StateErr(st2, e))
  ELSE IF st.pc # "idrain" THEN Res(st, "drain: input tracker drained in phase " \o st.pc)
       ELSE IF ~SeqEq(e.items, DrainSeq(st.idU, st.idM)) THEN Res(st, "drain: released input waiters differ (lost, duplicated or early release)")
       ELSE LET st2 == [IDrainStep(st) EXCEPT !.buf = e.items] IN Res(st2, StateErr(st2, e))

StepAsk(st, e) ==
  IF st.pc # "ask" THEN Res(st, "ask: prompt in phase " \o st.pc \o " (e.g. after a refusal)")
  ELSE IF e.input \notin Range(st.askList) THEN Res(st, "ask: " \o e.input \o " is not an unmet input of this iteration")
  ELSE IF T.det /\ C.rank[e.input] # MinRank(st.askList) THEN Res(st, "ask: prompts out of order")
  ELSE IF e.input \in DOMAIN st.cfg THEN Res(st, "ask: input already supplied")
  ELSE IF ~SeqEq(e.needed_by, st.idU[e.input]) THEN Res(st, "ask: needed_by differs from the registered waiters")
  ELSE
  LET st1 == [st EXCEPT !.askList = <<e.input>> \o RemoveAt(@, FirstIndex(@, e.input))] IN
  IF e.esc # "" THEN Res(Abort(st1, e.esc), "")
  ELSE LET st2 == IF e.supplied THEN AskAnswer(st1, e.input, e.digest) ELSE AskRefuse(st1)
       IN Res(st2, StateErr(st2, e))

StepFinish(st, e) ==
  IF st.pc # "finish" THEN Res(st, "finish: solve() returned in phase " \o st.pc \o " (work left undone)")
  ELSE
  LET st2 == FinishStep(st) IN
  IF e.solved # st2.solved THEN Res(st2, "finish: verdict differs: implementation " \o ToString(e.solved) \o ", specification " \o ToString(st2.solved))
  ELSE IF ~SeqEq(e.unimpl, st2.unimpl) THEN Res(st2, "finish: unimplemented_fields() differs")
  ELSE IF ~TrackerEq(st2.idU, e.unmetI) THEN Res(st2, "finish: unmet_input_dependencies() differs")
  ELSE IF ~TrackerEq(st2.fdU, e.unmetF) THEN Res(st2, "finish: unmet_field_dependencies() differs")
  ELSE IF SeqToSet(e.solkeys) # DOMAIN st2.vals THEN Res(st2, "finish: solution() keys differ from the stored values")
  ELSE Res(st2, StateErr(st2, e))

StepAbort(st, e) ==
  IF ~Aborted(st) THEN Res(st, "abort: implementation raised " \o e.cls \o " where the specification continues (pc=" \o st.pc \o ")")
  ELSE IF st.abort # e.kind THEN Res(st, "abort: kind " \o e.kind \o " where the specification has " \o st.abort)
  ELSE Res([st EXCEPT !.pc = "aborted"], "")

StepEvent(st, e) ==
  IF Aborted(st) /\ e.ev # "abort" THEN Res(st, "event " \o e.ev \o " after the specification aborted (" \o st.abort \o ")")
  ELSE
  LET r == CASE e.ev = "attempt" -> StepAttempt(st, e)
             [] e.ev = "drain"   -> StepDrain(st, e)
             [] e.ev = "ask"     -> StepAsk(st, e)
             [] e.ev = "finish"  -> StepFinish(st, e)
             [] e.ev = "abort"   -> StepAbort(st, e)
             [] e.ev = "overflow" -> Res(st, "work bound exceeded: the solve did not finish within the event budget (livelock or unbounded re-evaluation)")
             [] OTHER -> Res(st, "unknown event " \o e.ev)
  IN IF r.err # "" THEN r
     ELSE LET n == IF Terminal(r.s) \/ r.s.pc = "aborted" THEN r.s ELSE Norm(r.s, C)
          IN Res(n, InvErr(n))

(***************************************************************************)
(* behaviour                                                               *)
(***************************************************************************)
Start0(T0, C0) ==
  LET a == StartStep(InitSolver(T0.cfg0, T0.vals0, SeqToSet(T0.fmap0), T0.hasPrompt), C0, T0.request, T0.fieldNames)
  IN IF Aborted(a) THEN a ELSE Norm(a, C0)

TraceInit ==
  /\ t \in 1..Len(Traces)
  /\ l = 1
  /\ s = Start0(Traces[t], Cats[t])
  /\ err = ""
  /\ rep = FALSE

Complete == s.pc \in {"done", "aborted"}

Consume ==
  /\ err = "" /\ l <= Len(T.events)
  /\ LET r == StepEvent(s, T.events[l]) IN
        /\ s' = r.s
        /\ err' = r.err
  /\ l' = l + 1
  /\ UNCHANGED <<t, rep>>

Report ==
  /\ ~rep
  /\ err # "" \/ l > Len(T.events)
  /\ rep' = TRUE
  /\ LET e2 == IF err # "" THEN err
               ELSE IF ~Complete THEN "trace ends before the solve is complete (pc=" \o s.pc \o ")"
               ELSE ""
     IN PrintT("VERDICT|" \o ToString(T.tid) \o "|" \o ToString(l - 1) \o "|" \o ToString(Len(T.events)) \o "|" \o e2 \o "|")
  /\ UNCHANGED <<t, l, s, err>>

TraceNext == Consume \/ Report

TraceSpec == TraceInit /\ [][TraceNext]_tvars

=============================================================================
