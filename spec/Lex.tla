-------------------------------- MODULE Lex --------------------------------
(***************************************************************************)
(* C11: which input texts an input type must accept, may accept, or must   *)
(* reject, and what an accepted text denotes.  Texts are sequences of      *)
(* Unicode code points.                                                    *)
(*   "must"   the plain forms the documentation promises                   *)
(*   "may"    other spellings that DENOTE A FINITE VALUE of the type in a  *)
(*            liberal numeric grammar (exponents, digit-group underscores, *)
(*            non-ASCII decimal digits, a currency sign, thousands commas  *)
(*            in proper groups of three, t / f for a yes-no answer)        *)
(*   "reject" everything else -- in particular nan, inf, infinity,         *)
(*            overflowing exponents, near-miss enumeration names, SSNs     *)
(*            with 8 or 10 digits, blank for a choice that has no blank    *)
(***************************************************************************)
EXTENDS Integers, Sequences, FiniteSets, TLC

IsSpace(c)   == c \in {32, 9, 10, 11, 12, 13, 28, 29, 30, 31, 133, 160}
IsADigit(c)  == c >= 48 /\ c <= 57
IsUDigit(c)  == (c >= 1632 /\ c <= 1641) \/ (c >= 65296 /\ c <= 65305)     \* Arabic-Indic, full-width
IsDigit(c)   == IsADigit(c) \/ IsUDigit(c)
DigitVal(c)  == IF IsADigit(c) THEN c - 48 ELSE IF c <= 1641 THEN c - 1632 ELSE c - 65296
Lower(c)     == IF c >= 65 /\ c <= 90 THEN c + 32 ELSE c

RECURSIVE LStrip(_)
LStrip(q) == IF q # <<>> /\ IsSpace(Head(q)) THEN LStrip(Tail(q)) ELSE q
RECURSIVE RStrip(_)
RStrip(q) == IF q # <<>> /\ IsSpace(q[Len(q)]) THEN RStrip(SubSeq(q, 1, Len(q) - 1)) ELSE q
Strip(q) == RStrip(LStrip(q))
LowerSeq(q) == [k \in 1..Len(q) |-> Lower(q[k])]

(* a run of digits with single underscores allowed BETWEEN digits *)
RECURSIVE Run(_, _, _, _)
Run(s, ds, plain, lastUnder) ==
  IF s = <<>> THEN [ok |-> ~lastUnder, ds |-> ds, plain |-> plain, rest |-> s]
  ELSE IF IsDigit(Head(s)) THEN Run(Tail(s), Append(ds, DigitVal(Head(s))), plain /\ IsADigit(Head(s)), FALSE)
  ELSE IF Head(s) = 95 /\ ds # <<>> /\ ~lastUnder /\ Len(s) > 1 /\ IsDigit(s[2]) THEN Run(Tail(s), ds, FALSE, TRUE)
  ELSE [ok |-> ~lastUnder, ds |-> ds, plain |-> plain, rest |-> s]
DigitRun(s) == Run(s, <<>>, TRUE, FALSE)

RECURSIVE Val(_)
Val(ds) == IF ds = <<>> THEN 0 ELSE 10 * Val(SubSeq(ds, 1, Len(ds) - 1)) + ds[Len(ds)]

Sign(s) == IF s # <<>> /\ Head(s) \in {43, 45} THEN [neg |-> Head(s) = 45, rest |-> Tail(s), given |-> TRUE]
           ELSE [neg |-> FALSE, rest |-> s, given |-> FALSE]

R(cls, v) == [cls |-> cls, val |-> v, exact |-> TRUE]
Reject == R("reject", 0)

(* money layout: an optional "$" after the sign, and commas between proper groups of three in the integer part *)
RECURSIVE PrefixLen(_, _)
PrefixLen(s, i) == IF i <= Len(s) /\ (IsADigit(s[i]) \/ s[i] = 44) THEN PrefixLen(s, i + 1) ELSE i - 1
GroupsOk(p) ==
  LET commas == {k \in 1..Len(p) : p[k] = 44} IN
  \/ commas = {}
  \/ /\ 1 \notin commas
     /\ (CHOOSE k \in commas : \A j \in commas : k <= j) - 1 \in 1..3
     /\ \A k \in commas : /\ k + 3 <= Len(p)
                           /\ \A j \in (k + 1)..(k + 3) : p[j] # 44
                           /\ (k + 3 = Len(p) \/ p[k + 4] = 44)
NoCommas(p) == SelectSeq(p, LAMBDA c : c # 44)
(* -> [ok, plain, rest]: rest is the text with the "$" and the grouping commas taken out *)
Money(body) ==
  LET dollar == body # <<>> /\ Head(body) = 36
      b1 == IF dollar THEN Tail(body) ELSE body
      pl == PrefixLen(b1, 1)
      p  == SubSeq(b1, 1, pl)
      hasComma == \E k \in 1..pl : p[k] = 44
  IN [ok |-> GroupsOk(p), plain |-> ~dollar /\ ~hasComma, rest |-> NoCommas(p) \o SubSeq(b1, pl + 1, Len(b1))]

(***************************************************************************)
(* integer                                                                 *)
(***************************************************************************)
ClassInt(raw) ==
  LET s == Strip(raw) IN
  IF s = <<>> THEN R("must", 0)
  ELSE LET sg == Sign(s) mo == Money(sg.rest) r == DigitRun(mo.rest) IN
       IF r.ds = <<>> \/ ~r.ok \/ r.rest # <<>> THEN Reject
       ELSE IF Len(r.ds) > 9 \/ ~mo.ok THEN [cls |-> "may", val |-> 0, exact |-> FALSE]     \* too long for TLC, or commas in odd places: the value is not judged
       ELSE R(IF r.plain /\ mo.plain THEN "must" ELSE "may", IF sg.neg THEN 0 - Val(r.ds) ELSE Val(r.ds))

(***************************************************************************)
(* float: value in cents where exact (at most two fraction digits)         *)
(***************************************************************************)
Word(s) == LowerSeq(s)
IsNanInf(s) == Word(s) \in {<<110, 97, 110>>, <<105, 110, 102>>, <<105, 110, 102, 105, 110, 105, 116, 121>>}

RECURSIVE DropLeadingZeros(_)
DropLeadingZeros(ds) == IF ds # <<>> /\ Head(ds) = 0 THEN DropLeadingZeros(Tail(ds)) ELSE ds

(* decimal exponent of the leading non-zero digit of  int.frac * 10^e ; "zero" if the mantissa is 0 *)
Magnitude(ip, fp, e) ==
  LET i2 == DropLeadingZeros(ip) IN
  IF i2 # <<>> THEN [zero |-> FALSE, E |-> Len(i2) - 1 + e, lead |-> i2 \o fp]
  ELSE LET f2 == DropLeadingZeros(fp) IN
       IF f2 = <<>> THEN [zero |-> TRUE, E |-> 0, lead |-> <<>>]
       ELSE [zero |-> FALSE, E |-> e - (Len(fp) - Len(f2)) - 1, lead |-> f2]

(* largest double is 1.7976931348623157e308 *)
Overflows(m) ==
  ~m.zero /\ (m.E > 308 \/ (m.E = 308 /\ (m.lead[1] >= 2 \/ (m.lead[1] = 1 /\ Len(m.lead) >= 2 /\ m.lead[2] >= 8))))

ClassFloat(raw) ==
  LET s == Strip(raw) IN
  IF s = <<>> THEN R("must", 0)
  ELSE
  LET sg == Sign(s) mo == Money(sg.rest) IN
  IF IsNanInf(sg.rest) THEN Reject
  ELSE
  LET r1 == DigitRun(mo.rest)
      hasDot == r1.rest # <<>> /\ Head(r1.rest) = 46
      afterDot == IF hasDot THEN Tail(r1.rest) ELSE r1.rest
      r2 == IF hasDot THEN DigitRun(afterDot) ELSE [ok |-> TRUE, ds |-> <<>>, plain |-> TRUE, rest |-> afterDot]
      hasExp == r2.rest # <<>> /\ Lower(Head(r2.rest)) = 101
      es == IF hasExp THEN Sign(Tail(r2.rest)) ELSE [neg |-> FALSE, rest |-> r2.rest, given |-> FALSE]
      r3 == IF hasExp THEN DigitRun(es.rest) ELSE [ok |-> TRUE, ds |-> <<>>, plain |-> TRUE, rest |-> es.rest]
  IN
  IF ~r1.ok \/ ~r2.ok \/ ~r3.ok THEN Reject
  ELSE IF r1.ds = <<>> /\ r2.ds = <<>> THEN Reject                     \* no digit in the mantissa
  ELSE IF hasExp /\ r3.ds = <<>> THEN Reject
  ELSE IF r3.rest # <<>> THEN Reject
  ELSE
  LET e == IF ~hasExp THEN 0 ELSE IF Len(r3.ds) > 4 THEN (IF es.neg THEN -99999 ELSE 99999)
           ELSE (IF es.neg THEN 0 - Val(r3.ds) ELSE Val(r3.ds))
      m == Magnitude(r1.ds, r2.ds, e)
  IN
  IF Overflows(m) THEN Reject
  ELSE
  LET plain == ~hasExp /\ r1.plain /\ r2.plain /\ r1.ds # <<>> /\ mo.plain
      exact == ~hasExp /\ Len(r1.ds) <= 7 /\ Len(r2.ds) <= 2 /\ mo.ok
      cents == IF ~exact THEN 0 ELSE Val(r1.ds) * 100 + (IF Len(r2.ds) = 0 THEN 0 ELSE IF Len(r2.ds) = 1 THEN r2.ds[1] * 10 ELSE r2.ds[1] * 10 + r2.ds[2])
  IN [cls |-> IF plain THEN "must" ELSE "may", val |-> IF sg.neg THEN 0 - cents ELSE cents, exact |-> exact]

(***************************************************************************)
(* boolean, enumeration, SSN, the two regular expressions used by the forms*)
(***************************************************************************)
Str(t) == t      \* texts are given as sequences of code points by the harness (TrueWords etc. below)

TrueWords  == {<<121, 101, 115>>, <<121>>, <<116, 114, 117, 101>>, <<111, 110>>, <<49>>}                  \* yes y true on 1
FalseWords == {<<110, 111>>, <<110>>, <<102, 97, 108, 115, 101>>, <<111, 102, 102>>, <<48>>}              \* no n false off 0

ClassBool(raw) ==
  LET w == LowerSeq(Strip(raw)) IN
  IF w \in TrueWords THEN R("must", 1) ELSE IF w \in FalseWords THEN R("must", 0)
  ELSE IF w = <<116>> THEN R("may", 1) ELSE IF w = <<102>> THEN R("may", 0) ELSE Reject

(* members: set of code-point sequences; blankOk: the choice may be left empty *)
ClassEnum(raw, members, blankOk) ==
  LET s == Strip(raw) IN
  IF s = <<>> THEN (IF blankOk THEN R("must", 0) ELSE Reject)
  ELSE IF s \in members THEN R("must", 1) ELSE Reject

RECURSIVE NoHyphen(_)
NoHyphen(s) == IF s = <<>> THEN <<>> ELSE IF Head(s) = 45 THEN NoHyphen(Tail(s)) ELSE <<Head(s)>> \o NoHyphen(Tail(s))

ClassSSN(raw) ==
  LET s == Strip(raw) d == NoHyphen(s) IN
  IF Len(d) # 9 \/ \E k \in 1..Len(d) : ~IsADigit(d[k]) THEN Reject
  ELSE IF s = d \/ (Len(s) = 11 /\ s[4] = 45 /\ s[7] = 45) THEN R("must", 0)
  ELSE R("may", 0)

(* ^(0[1-9]|1[0-2]|2[1-9]|3[0-2])[0-9]{7}$ *)
ClassRouting(raw) ==
  LET s == Strip(raw) IN
  IF Len(s) # 9 \/ \E k \in 1..9 : ~IsADigit(s[k]) THEN Reject
  ELSE LET a == s[1] - 48 b == s[2] - 48 IN
       IF (a = 0 /\ b >= 1) \/ (a = 1 /\ b <= 2) \/ (a = 2 /\ b >= 1) \/ (a = 3 /\ b <= 2) THEN R("must", 0) ELSE Reject

(* [0-9]{5} without anchors: a pattern input accepts a text that matches FROM ITS FIRST CHARACTER (anything may follow) *)
ClassPrefix5(raw) ==
  LET s == Strip(raw) IN
  IF Len(s) >= 5 /\ \A k \in 1..5 : IsADigit(s[k]) THEN R("must", 0) ELSE Reject

(* ^[0-9A-Za-z\-]{1,17}$ *)
ClassAccount(raw) ==
  LET s == Strip(raw) IN
  IF Len(s) < 1 \/ Len(s) > 17 THEN Reject
  ELSE IF \A k \in 1..Len(s) : IsADigit(s[k]) \/ (s[k] >= 65 /\ s[k] <= 90) \/ (s[k] >= 97 /\ s[k] <= 122) \/ s[k] = 45 THEN R("must", 0)
  ELSE Reject
=============================================================================
