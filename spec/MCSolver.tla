------------------------------ MODULE MCSolver ------------------------------
(* Model-checking wrapper: binds Solver.tla to a generated family of programs *)
EXTENDS Solver, GenProgs
=============================================================================
