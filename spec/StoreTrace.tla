----------------------------- MODULE StoreTrace -----------------------------
(***************************************************************************)
(* habutax.inputs.InputStore as an object (integer inputs, texts "0" "1"   *)
(* valid, anything else invalid).  State: the supplied texts.  Every       *)
(* public operation is a transition with a result:                         *)
(*   get k      -> "nospec" | "missing" | "invalid" | the value            *)
(*   set k t    -> stores the text (afterwards get shows the NEW text)     *)
(*   del k      -> removes it (afterwards get reports missing)             *)
(*   has k      -> `k in store`                                            *)
(*   reload     -> write the store to a file and load that file            *)
(* Step is validated against every transition of the REAL object's         *)
(* reachable state graph (HV_STORE_FILE), so a read can never show a       *)
(* stale, deleted or defaulted value whatever sequence of operations came  *)
(* before (C11: supplied never missing, not supplied never defaulting;     *)
(* C03: no later-overwritten view).                                        *)
(***************************************************************************)
EXTENDS Integers, Sequences, FiniteSets, TLC, Json, IOUtils

Upd(f, k, v) == [x \in (DOMAIN f) \cup {k} |-> IF x = k THEN v ELSE f[x]]
Del(f, k)    == [x \in (DOMAIN f) \ {k} |-> f[x]]

Valid(t) == t \in {"0", "1"}

(* st = [cfg |-> [name -> text], specs |-> set of names known] *)
Step(st, op) ==
  CASE op.op = "get" ->
         [st |-> st,
          ret |-> IF op.k \notin st.specs THEN "nospec"
                  ELSE IF op.k \notin DOMAIN st.cfg THEN "missing"
                  ELSE IF ~Valid(st.cfg[op.k]) THEN "invalid"
                  ELSE st.cfg[op.k]]
    [] op.op = "set" -> [st |-> [st EXCEPT !.cfg = Upd(@, op.k, op.t)], ret |-> "None"]
    [] op.op = "del" -> IF op.k \in DOMAIN st.cfg THEN [st |-> [st EXCEPT !.cfg = Del(@, op.k)], ret |-> "None"]
                        ELSE IF DOMAIN st.cfg # {} THEN [st |-> st, ret |-> "None"]      \* its section exists (all names here share one): nothing to remove
                        ELSE [st |-> st, ret |-> "error"]                               \* no such section
    [] op.op = "has" -> [st |-> st, ret |-> IF op.k \in DOMAIN st.cfg THEN "True" ELSE "False"]
    [] op.op = "reload" -> [st |-> st, ret |-> "None"]

Trans == TLCEval(JsonDeserialize(IOEnv.HV_STORE_FILE)).trans
SeqToSet(q) == {q[k] : k \in 1..Len(q)}
VARIABLE k
VInit == k = 0
VNext == /\ k < Len(Trans) /\ k' = k + 1
         /\ LET x == Trans[k + 1]
                pre == [cfg |-> x.pre, specs |-> SeqToSet(x.specs)]
                r == Step(pre, x.op)
            IN (r.st.cfg = x.post /\ r.ret = x.ret) \/ PrintT("STORE|" \o ToString(k + 1) \o "|")
VSpec == VInit /\ [][VNext]_k
=============================================================================
