------------------------------ MODULE Apalache ------------------------------
(* stand-in so that TLC / SANY can read modules written for Apalache; Gen is never evaluated by TLC *)
Gen(n) == CHOOSE x \in {} : TRUE
=============================================================================
