---------------------------- MODULE TrackerApaEq ----------------------------
(***************************************************************************)
(* Binds the Apalache formulation (TrackerApa) to the transition function  *)
(* that the solver specification and the trace validation use              *)
(* (TrackerCore!Step): on every state TrackerApa reaches, each method has  *)
(* the same effect in both.  Checked by TLC (TrackerApaEq.cfg).            *)
(***************************************************************************)
EXTENDS TrackerApa, TLC
TC == INSTANCE TrackerCore

Cur == [unmet |-> unmet, met |-> met]
AddAgrees == \A d \in Deps, w \in Ws :
               UnmetAfterAdd(d, w) = TC!Step(Cur, [op |-> "add", d |-> d, w |-> w]).st.unmet
MeetAgrees == \A d \in Deps : Append(met, d) = TC!Step(Cur, [op |-> "meet", d |-> d]).st.met
DrainAgrees == LET r == TC!Step(Cur, [op |-> "next"]) IN
               /\ r.st.unmet = UnmetAfterDrain
               /\ r.st.met = MetAfterDrain
               /\ r.ret = (IF Stops THEN "STOP" ELSE ServedW)
Agrees == AddAgrees /\ MeetAgrees /\ DrainAgrees
=============================================================================
