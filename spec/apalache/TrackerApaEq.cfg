SPECIFICATION Spec
CHECK_DEADLOCK FALSE
INVARIANT Agrees
INVARIANT IndInv
