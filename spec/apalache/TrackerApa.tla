----------------------------- MODULE TrackerApa -----------------------------
(***************************************************************************)
(* The dependency bookkeeping of TrackerCore / Tracker, written without    *)
(* recursion and with type annotations so that Apalache can discharge an   *)
(* INDUCTIVE invariant: the exactly-once / never-early part of C06 then    *)
(* holds for histories of ANY length (TLC checks all histories up to       *)
(* MaxOps), for the data sizes below.                                      *)
(*   apalache-mc check --init=IndInit --inv=IndInv --length=1  (step)      *)
(*   apalache-mc check --init=Init --inv=IndInv --length=0     (base)      *)
(* TLC checks (TrackerApaEq.cfg) that Next here and TrackerCore!Step agree *)
(* on every state the bounded model reaches.                               *)
(***************************************************************************)
EXTENDS Integers, Sequences, FiniteSets, Apalache

Deps == {"d1", "d2"}
Ws   == {"w1", "w2", "w3"}
MaxLen == 3            \* bound on every list (the step actions refuse to grow beyond it)

VARIABLES
  \* @type: Str -> Seq(Str);
  unmet,
  \* @type: Seq(Str);
  met,
  \* @type: <<Str, Str>> -> Int;
  pend,
  \* @type: Set(Str);
  everMet,
  \* @type: Str;
  lastServed          \* the dependency whose waiter the last step released, or "none"

vars == <<unmet, met, pend, everMet, lastServed>>

Pairs == Deps \X Ws

\* @type: (Seq(Str), Str) => Int;
Count(q, x) == Cardinality({k \in DOMAIN q : q[k] = x})
\* @type: (Seq(Str)) => Set(Str);
RangeOf(q) == {q[k] : k \in DOMAIN q}

Init == /\ unmet = [d \in {} |-> <<>>]
        /\ met = <<>>
        /\ pend = [x \in Pairs |-> 0]
        /\ everMet = {}
        /\ lastServed = "none"

(* the effect of each method as plain operators of the current state (TrackerApaEq compares them with TrackerCore!Step) *)
\* @type: (Str, Str) => (Str -> Seq(Str));
UnmetAfterAdd(d, w) ==
  [e \in DOMAIN unmet \cup {d} |-> IF e = d THEN (IF d \in DOMAIN unmet THEN Append(unmet[d], w) ELSE <<w>>) ELSE unmet[e]]

(* one next() of met_dependents(): drop met names nobody waits for; release the LAST waiter of the first met name that has waiters *)
Idx == {i \in DOMAIN met : met[i] \in DOMAIN unmet}
Stops == Idx = {}
First == CHOOSE j \in Idx : \A j2 \in Idx : j <= j2
ServedDep == met[First]
ServedW == unmet[ServedDep][Len(unmet[ServedDep])]
\* @type: Str -> Seq(Str);
UnmetAfterDrain ==
  IF Stops THEN unmet
  ELSE IF Len(unmet[ServedDep]) = 1 THEN [e \in DOMAIN unmet \ {ServedDep} |-> unmet[e]]
  ELSE [unmet EXCEPT ![ServedDep] = SubSeq(unmet[ServedDep], 1, Len(unmet[ServedDep]) - 1)]
\* @type: Seq(Str);
MetAfterDrain ==
  IF Stops THEN <<>>
  ELSE IF Len(unmet[ServedDep]) = 1 THEN SubSeq(met, First + 1, Len(met))
  ELSE SubSeq(met, First, Len(met))

Add(d, w) ==
  /\ IF d \in DOMAIN unmet THEN Len(unmet[d]) < MaxLen ELSE TRUE
  /\ unmet' = UnmetAfterAdd(d, w)
  /\ pend' = [pend EXCEPT ![<<d, w>>] = @ + 1]
  /\ lastServed' = "none"
  /\ UNCHANGED <<met, everMet>>

Meet(d) ==
  /\ Len(met) < MaxLen
  /\ met' = Append(met, d)
  /\ everMet' = everMet \cup {d}
  /\ lastServed' = "none"
  /\ UNCHANGED <<unmet, pend>>

DrainNext ==
  /\ unmet' = UnmetAfterDrain
  /\ met' = MetAfterDrain
  /\ pend' = IF Stops THEN pend ELSE [pend EXCEPT ![<<ServedDep, ServedW>>] = @ - 1]
  /\ lastServed' = IF Stops THEN "none" ELSE ServedDep
  /\ UNCHANGED everMet

Next == \/ \E d \in Deps, w \in Ws : Add(d, w)
        \/ \E d \in Deps : Meet(d)
        \/ DrainNext

Spec == Init /\ [][Next]_vars

(***************************************************************************)
(* invariants                                                              *)
(***************************************************************************)
TypeOK == /\ DOMAIN unmet \subseteq Deps
          /\ \A d \in DOMAIN unmet : Len(unmet[d]) <= MaxLen /\ RangeOf(unmet[d]) \subseteq Ws
          /\ Len(met) <= MaxLen /\ RangeOf(met) \subseteq Deps
          /\ DOMAIN pend = Pairs
          /\ everMet \subseteq Deps
          /\ lastServed \in Deps \cup {"none"}

Shape == \A d \in DOMAIN unmet : Len(unmet[d]) >= 1
(* exactly once: what is pending is exactly what is still listed -- nothing released twice, nothing dropped *)
ExactlyOnce == \A x \in Pairs : pend[x] = (IF x[1] \in DOMAIN unmet THEN Count(unmet[x[1]], x[2]) ELSE 0)
(* never early: whatever can be served next, and whatever was served last, has been met *)
MetIsMet == RangeOf(met) \subseteq everMet
NeverEarly == lastServed # "none" => lastServed \in everMet

IndInv == TypeOK /\ Shape /\ ExactlyOnce /\ MetIsMet /\ NeverEarly

IndInit ==
  /\ unmet = Gen(3) /\ met = Gen(3) /\ pend = Gen(6) /\ everMet = Gen(2) /\ lastServed = Gen(1)
  /\ IndInv
=============================================================================
