#!/bin/sh
# usage: run_tlc.sh <module> <cfg> [extra tlc args]   (run from /verif/spec)
M=$(mktemp -d /tmp/hv_meta_XXXX)
mod=$1; cfg=$2; shift 2
java -XX:+UseParallelGC -Xss16m -DTLA-Library=/verif/spec:/verif/spec/gen -cp /opt/veriftools/tla/tla2tools.jar:/opt/veriftools/tla/CommunityModules-deps.jar tlc2.TLC -metadir $M -noGenerateSpecTE -config $cfg -workers ${WORKERS:-16} "$@" $mod 2>&1 | grep -v "^Parsing file\|^Semantic processing\|^Linting of"
rm -rf $M
