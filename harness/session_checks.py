"""C20: interrupting an interactive solve never loses input already given."""
import json
import os
import random
import re
import shutil

import common
import cli_driver
import progs as progs_mod
import scenarios
import solver_checks


def write_file(path, cfg0, decorated=False, capitals=False):
    """decorated: the way a person keeps such a file -- comment lines, blank lines, a note at the end (all of it text that a
    rewrite by the program drops, so the rewritten file is SHORTER than the original)"""
    import runs
    if capitals:
        # keys typed with capital letters (option names of an INI file are not case sensitive)
        secs = {}
        for name, text in cfg0.items():
            secs.setdefault(name.split(".", 1)[0], []).append((name.split(".", 1)[1], text))
        with open(path, "w") as f:
            for sec, kv in secs.items():
                if capitals == "headers":
                    # the SECTION header typed in capitals, keys as they are: section names are case sensitive, so such a section supplies
                    # nothing -- and must not supply something in one run and nothing in the next
                    f.write("[%s]\n" % sec.upper())
                    for k2, v2 in kv:
                        f.write("%s = %s\n" % (k2, v2))
                    f.write("\n")
                    continue
                f.write("[%s]\n" % sec)
                for k2, v2 in kv:
                    f.write("%s = %s\n" % (k2.capitalize() if len(k2) > 1 else k2.upper(), v2))
                f.write("\n")
        return
    conf = runs.make_config(cfg0)
    with open(path, "w") as f:
        if decorated:
            f.write("# my inputs for this year -- do not lose!\n# (values below were copied from the paper forms)\n\n")
            # a section of the user's own, with a text the INI reader could not interpolate (nobody reads it; it must survive)
            # ... and a value continued on indented lines, the way a long note is kept in an INI file
            f.write("[0_notes]\nprogress = about 50% done, ask the bank\ntodo = call the employer\n\tabout box 14 = other\n\t[and] the state number\n\n")
        conf.write(f)
        if decorated:
            f.write("\n\n# end of file: remember to ask about the missing forms ....................................................\n")


def one_session(sid, year, request, cfg0, answers, default, k, kind, work, capitals=False):
    path = os.path.join(work, "in_%d.habutax" % sid)
    if cfg0 is None:
        if os.path.exists(path):
            os.remove(path)          # --writeback-input creates the file
        before = {}
    else:
        write_file(path, cfg0, decorated=(sid % 2 == 0 and not capitals), capitals=capitals)
        ok, before = cli_driver.file_map(path)
    kb = cli_driver.Keyboard(answers, default=default, interrupt_at=k, kind=kind)
    r1 = cli_driver.run_solve(year, request, path, kb, solution_path=os.path.join(work, "sol_%d" % sid))
    answered = [(n, t) for (n, t) in kb.typed]
    if kb.interrupted and answered and len(kb.questions) == k and kb.questions[-1] == answered[-1][0]:
        answered = answered[:-1]
    parsed, after = cli_driver.file_map(path)
    # follow-up run on the file that was left behind; it may ask new things but nothing already given
    kb2 = cli_driver.Keyboard(answers, default=default)
    shutil.copy(path, path + ".2") if os.path.exists(path) else open(path + ".2", "w").close()
    r2 = cli_driver.run_solve(year, request, path + ".2", kb2, solution_path=os.path.join(work, "sol2_%d" % sid))
    norm = lambda t: t.strip()
    s1, s2 = os.path.join(work, "sol_%d" % sid), os.path.join(work, "sol2_%d" % sid)
    same = (cli_driver.file_map(s1) == cli_driver.file_map(s2)) if (os.path.exists(s1) and os.path.exists(s2)) else (os.path.exists(s1) == os.path.exists(s2))
    return {"sid": sid, "kind": kind or "none", "k": k or 0, "before": before, "same": bool(same), "returned": r1["exc"] == "",
            "answered": [{"i": n, "v": norm(t)} for (n, t) in answered], "parsed": bool(parsed),
            "after": {a: norm(b) for a, b in after.items()}, "rerun_asks": kb2.questions, "asked": list(kb.questions),
            "ended": r1["exc"], "interrupted": kb.interrupted, "nq": len(kb.questions)}


def c20(tier):
    import habutax.forms as F
    rep = common.Reporter("C20", tier)
    sd = common.seed()
    rng = random.Random(99 + sd)
    cov = {}
    work = common.mkwork()
    sessions, meta = [], {}
    try:
        # (M) the design: every interruption point and kind on generated programs
        small = solver_checks.family(tier, sd, "small")
        progs_mod.emit_module(small, os.path.join(work, "GenProgs.tla"))
        shutil.copy(os.path.join(common.SPEC, "MCSession.tla"), work)
        shutil.copy(os.path.join(common.SPEC, "Session.cfg"), os.path.join(work, "s.cfg"))
        mc = common.run_tlc("MCSession", os.path.join(work, "s.cfg"), cwd=work, timeout=1800)
        if mc.violated:
            for v in mc.violated:
                rep.violation("model:%s" % v, mc.error_excerpt(60), {"kind": "tlc-counterexample"})
        elif not mc.ok:
            raise common.MachineryError("TLC failed on Session.tla:\n" + mc.error_excerpt(40))
        cov["states"], cov["transitions"] = mc.distinct, mc.generated

        # (T) real sessions of the real command on generated programs (synthetic year 1970): every k, both kinds
        sid = 0
        nprog = 25 if tier == "quick" else 150
        for prog in small[:nprog]:
            x = progs_mod.expand(prog)
            F.available_forms[1970] = progs_mod.build_forms(prog)
            inputs = sorted(x["all_inputs"])
            answers = {i: rng.choice(["0", "1"]) for i in inputs}
            by_sec = {}
            for i in inputs:
                by_sec.setdefault(i.split(".")[0], []).append(i)
            # two kinds of initial file: a random part of the inputs; one value of every section that has more to ask
            # (so that no answer opens a new section)
            files = [{i: rng.choice(["0", "1"]) for i in inputs if rng.random() < 0.3}]
            every = {v[0]: answers[v[0]] for v in by_sec.values() if len(v) > 1}
            if every and every != files[0]:
                files.append(every)
            if len(inputs) > 1:
                # a file that holds a value the program will refuse (it stops the solve with an error when it is read): the file
                # must still hold it afterwards, whenever the session ends
                bad = {i: rng.choice(["0", "1"]) for i in inputs if rng.random() < 0.3}
                bad[inputs[-1]] = "bad"
                files.append(bad)
            for cfg0 in files:
                # how many questions does the uninterrupted session ask?
                sid += 1
                base = one_session(sid, 1970, prog["request"], cfg0, answers, "0", None, None, work)
                sessions.append(base)
                meta[sid] = {"prog": prog["id"], "cfg0": cfg0, "answers": answers}
                for k in range(1, base["nq"] + 1):
                    for kind in ("ctrlc", "eof"):
                        sid += 1
                        sessions.append(one_session(sid, 1970, prog["request"], cfg0, answers, "0", k, kind, work))
                        meta[sid] = {"prog": prog["id"], "cfg0": cfg0, "answers": answers, "k": k, "kind": kind}
        F.available_forms.pop(1970, None)
        # (T) real returns: a prompted scenario is recorded, then replayed through the CLI and interrupted at k
        nscen = 2 if tier == "quick" else 9
        for n in range(nscen):
            year = scenarios.YEARS[n % 3]
            r2 = random.Random("c20-%d-%d" % (sd, n))
            p = scenarios.Profile(r2, year=year, nc=(n % 2 == 1))
            request = ["1040"] + (["nc_d-400"] if p.nc else [])
            tr, res, solver, ans = scenarios.solve_scenario(year, request, p, r2, snap="none")
            answers = dict(ans.given)
            order = list(ans.order)
            part = {a: answers[a] for a in order[: len(order) // 3]}        # a third is already in the file ...
            first = {}
            for a in order:
                first.setdefault(a.split(".")[0], a)
            if n % 2 == 0:
                part.update({a: answers[a] for a in first.values()})        # ... and (every other return) one value of every section
            ks = list(range(1, len(order) - len(part) + 1))
            if tier == "quick":
                ks = ks[::9] + ks[-2:]
            for k in ks:
                for kind in ("ctrlc", "eof"):
                    sid += 1
                    sessions.append(one_session(sid, year, request, part, answers, "", k, kind, work))
                    meta[sid] = {"year": year, "request": request, "k": k, "kind": kind, "file": part, "answers": answers}
        path = os.path.join(work, "sess.json")
        json.dump({"sessions": [{k: v for k, v in s.items() if k not in ("ended", "interrupted", "nq")} for s in sessions]}, open(path, "w"))
        cfgp = os.path.join(work, "t.cfg")
        open(cfgp, "w").write("SPECIFICATION Spec\nCHECK_DEADLOCK FALSE\n")
        res_t = common.run_tlc(os.path.join(common.SPEC, "SessionTrace.tla"), cfgp, cwd=work, workers=1, env={"HV_SESS_FILE": path}, timeout=1800)
    finally:
        common.rmwork(work)
    if res_t.rc != 0 or res_t.distinct != len(sessions) + 1:
        raise common.MachineryError("SessionTrace.tla failed (rc=%s)\n%s" % (res_t.rc, res_t.error_excerpt(40)))
    for m in re.finditer(r'^"C20\|(\d+)\|(.*)\|"$', res_t.out, re.M):
        s_id, msg = int(m.group(1)), m.group(2)
        mt = meta[s_id]
        rep.violation("session:%s:%s:%s" % (mt.get("prog", mt.get("year")), mt.get("kind", "none"), msg[:50]), "%s (interrupted at prompt %s)" % (msg, mt.get("k")),
                      {"kind": "session", "meta": mt})
    ended = {}
    for s in sessions:
        key = (s["kind"], s["ended"] or "returned")
        ended[key] = ended.get(key, 0) + 1
    cov.update({"traces_validated_against_impl": len(sessions), "samples": [{k: v for k, v in sessions[1].items() if k in ("kind", "k", "answered", "rerun_asks", "ended")}],
                "sessions_by_kind_and_end": {"%s/%s" % k: v for k, v in sorted(ended.items())},
                "interrupted_sessions": sum(1 for s in sessions if s["interrupted"]),
                "explanation": "TLC model-checks Session.tla (write-back in finally, second session) over every interruption point of generated programs; "
                               "the real command is run in-process with a scripted keyboard, interrupted at every prompt index (programs) / sampled indices (real returns) by Ctrl-C and end of input, "
                               "sessions also end in unsupported forms, failing lines and invalid file text; every session record is judged by SessionTrace.tla"})
    return rep, "model_checking", cov, ["keyboard and file system are the real ones of an in-process call of habutax.solve(); pdftk is not involved",
                                        "values compared up to surrounding whitespace (configparser strips it)"]


def c13_sessions(tier, rep, cov):
    """C13 at the command line: solve with prompts and write-back, then the same command again on the file it wrote --
    the second run asks nothing and writes the identical solution (SessionTrace.tla, Judge13).  The files are chosen so
    that every section an answer belongs to already exists (and, for others, does not)."""
    import habutax.forms as F
    sd = common.seed()
    rng = random.Random(131 + sd)
    work = common.mkwork()
    sessions, meta = [], {}
    try:
        sid = 0
        small = solver_checks.family(tier, sd, "small")
        for prog in small[:(20 if tier == "quick" else 150)]:
            x = progs_mod.expand(prog)
            inputs = sorted(x["all_inputs"])
            if not inputs:
                continue
            F.available_forms[1970] = progs_mod.build_forms(prog)
            answers = {i: rng.choice(["0", "1"]) for i in inputs}
            by_sec = {}
            for i in inputs:
                by_sec.setdefault(i.split(".")[0], []).append(i)
            for style in ("every-section", "random", "capitals", "headers"):
                if style == "every-section":
                    cfg0 = {v[0]: answers[v[0]] for v in by_sec.values() if len(v) > 1}
                else:
                    cfg0 = {i: answers[i] for i in inputs if rng.random() < (0.3 if style == "random" else 0.7)}
                sid += 1
                sessions.append(one_session(sid, 1970, prog["request"], cfg0 or None, answers, "0", None, None, work, capitals=(True if style == "capitals" else ("headers" if style == "headers" else False))))
                meta[sid] = {"prog": prog["id"], "cfg0": cfg0, "answers": answers, "style": style}
        F.available_forms.pop(1970, None)
        for n in range(3 if tier == "quick" else 30):
            year = scenarios.YEARS[n % 3]
            r2 = random.Random("c13s-%d-%d" % (sd, n))
            p = scenarios.Profile(r2, year=year, nc=(n % 4 == 3))
            request = ["1040"] + (["nc_d-400"] if p.nc else [])
            tr, res, solver, ans = scenarios.solve_scenario(year, request, p, r2, snap="none")
            answers = dict(ans.given)
            first = {}
            for a in ans.order:
                first.setdefault(a.split(".")[0], a)
            part = {a: answers[a] for a in first.values()}                      # one value of every section ...
            part.update({a: answers[a] for a in ans.order if r2.random() < 0.3})   # ... and some more
            sid += 1
            sessions.append(one_session(sid, year, request, part, answers, "", None, None, work))
            meta[sid] = {"year": year, "request": request, "file": part, "answers": answers}
            # the same file with its section headers in capitals ([W-2:0]): those sections supply nothing, in the first run and in the re-run alike
            sid += 1
            sessions.append(one_session(sid, year, request, part, answers, "", None, None, work, capitals="headers"))
            meta[sid] = {"year": year, "request": request, "file": part, "answers": answers, "style": "section headers in capitals"}
        path = os.path.join(work, "sess.json")
        json.dump({"sessions": [{k: v for k, v in s.items() if k not in ("ended", "interrupted", "nq")} for s in sessions]}, open(path, "w"))
        cfgp = os.path.join(work, "t.cfg")
        open(cfgp, "w").write("SPECIFICATION Spec13\nCHECK_DEADLOCK FALSE\n")
        res_t = common.run_tlc(os.path.join(common.SPEC, "SessionTrace.tla"), cfgp, cwd=work, workers=1, env={"HV_SESS_FILE": path}, timeout=1800)
    finally:
        F.available_forms.pop(1970, None)
        common.rmwork(work)
    if res_t.rc != 0 or res_t.distinct != len(sessions) + 1:
        raise common.MachineryError("SessionTrace.tla (Spec13) failed (rc=%s)\n%s" % (res_t.rc, res_t.error_excerpt(40)))
    for m in re.finditer(r'^"C13\|(\d+)\|(.*)\|"$', res_t.out, re.M):
        mt = meta[int(m.group(1))]
        rep.violation("cli-repeat:%s:%s" % (mt.get("prog", mt.get("year")), m.group(2)[:60]), m.group(2), {"kind": "session", "meta": mt})
    cov["cli_solve_writeback_solve_histories"] = len(sessions)
    cov["cli_histories_where_the_first_run_returned"] = sum(1 for s in sessions if s["returned"])
