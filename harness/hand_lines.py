"""C02: cited hand transcriptions of line instructions that the IRS templates do not carry in machine-readable form
(worksheets in the Form 1040 instructions, look-ups by filing status, NC forms -- for the NC forms the wording is
quoted from the text of the bundled NC PDFs)."""

# status order everywhere: Single, MFJ, MFS, HoH, QSS
STD = {2021: [12550, 25100, 12550, 18800, 25100], 2022: [12950, 25900, 12950, 19400, 25900], 2023: [13850, 27700, 13850, 20800, 27700]}
CG0 = {2021: [40400, 80800, 40400, 54100, 80800], 2022: [41675, 83350, 41675, 55800, 83350], 2023: [44625, 89250, 44625, 59750, 89250]}
CG15 = {2021: [445850, 501600, 250800, 473750, 501600], 2022: [459750, 517200, 258600, 488500, 517200], 2023: [492300, 553850, 276900, 523050, 553850]}
SALT = [10000, 10000, 5000, 10000, 10000]
AMT_EX = {2021: [73600, 114600, 57300, 73600, 114600], 2022: [75900, 118100, 59050, 75900, 118100], 2023: [81300, 126500, 63250, 81300, 126500]}
AMT_PH = {2021: [523600, 1047200, 523600, 523600, 1047200], 2022: [539900, 1079800, 539900, 539900, 1079800], 2023: [578150, 1156300, 578150, 578150, 1156300]}
CTC_PH = [200000, 400000, 200000, 200000, 200000]
NC_RATE = {2021: (525, 10000), 2022: (499, 10000), 2023: (475, 10000)}
NC_STD = {2021: [10750, 21500, 10750, 16125, 21500], 2022: [12750, 25500, 12750, 19125, 25500], 2023: [12750, 25500, 12750, 19125, 25500]}
NC_SS_TOTAL_ADDITIONS = {2021: "15", 2022: "16", 2023: "16"}     # "Total Additions - Add Lines 1 through 14 / 15 (Enter the total here and on Form D-400, Line 7)"
NC_SS_TOTAL_DEDUCTIONS = {2021: "38", 2022: "41", 2023: "41"}    # "Total Deductions - Add Lines 16 through 21, 22f, 23f, and 24 through 37" (2021) / "... 17 through 22, 23f, 24f, and 25 through 40"
ACTC = {2022: 1500, 2023: 1600}
AMED = [200000, 250000, 125000, 200000, 200000]                      # Form 8959 lines 5, 9, 15: "Enter the following amount for your filing status"
HSA_SELF = {2021: 3600, 2022: 3650, 2023: 3850}                     # Form 8889 line 3 (Rev. Proc. 2020-32, 2021-25, 2022-24)
HSA_FAMILY = {2021: 7200, 2022: 7300, 2023: 7750}


def E(form, line, op, args=(), cite="", **kw):
    d = {"form": form, "line": line, "op": op, "args": list(args), "origin": "hand", "text": cite}
    d.update(kw)
    return d


def equations(year):
    W = "1040_qualdiv_capgain_tax_wkst"
    cw = "Qualified Dividends and Capital Gain Tax Worksheet - Line 16 (Form 1040 instructions %d)" % year
    out = [
        # Form 1040
        E("1040", "12", "carry", src="1040_sa.17", cond="1040.itemizing", condis=1, cite="12. Standard deduction or itemized deductions (from Schedule A)"),
        E("1040", "12", "const", consts=STD[year], cond="1040.itemizing", condis=0, cite="Standard Deduction side bar of Form 1040"),
        E("1040", "16", "carry", src=W + ".25", cite=cw + " line 25: enter on Form 1040 line 16"),
        E("1040", "16", "carry_if_any", ["3a", "7"], src=W + ".25",
          cite="Form 1040 line 16, Tax: if you have qualified dividends (line 3a) or capital gain distributions (line 7) and need not file Schedule D, use the " + cw),
        E("1040", "19", "carry", src="1040_s8812.14" if year != 2021 else "1040_s8812.nonrefundable_ctc_or_odc", cite="19. Child tax credit or credit for other dependents from Schedule 8812"),
        E("1040", "13", "carry", src="8995.15", cite="13. Qualified business income deduction from Form 8995"),
        E("1040", "34", "sub", ["24", "33"], cite="34. If line 33 is more than line 24, subtract line 24 from line 33"),
        E("1040", "2b", "carry", src="1040_sb.4", cite="Schedule B line 4: enter the result here and on Form 1040 line 2b"),
        E("1040", "3b", "carry", src="1040_sb.6", cite="Schedule B line 6: enter the total here and on Form 1040 line 3b"),
        E("1040", "25a", "addinst", terms=[("w-2", "box_2")], cite="25a. Federal income tax withheld from Form(s) W-2 (box 2 of every W-2)"),
        E("1040", "1a" if year != 2021 else "1", "addinst", terms=[("w-2", "box_1")], cite="1a. Total amount from Form(s) W-2, box 1", cond_nonzero=True),
        E("1040", "2a", "addinst", terms=[("1099-int", "box_8")], cite="2a. Tax-exempt interest (Form 1099-INT box 8)"),
        E("1040", "3a", "addinst", terms=[("1099-div", "box_1b")], cite="3a. Qualified dividends (Form 1099-DIV box 1b)"),
        E("1040", "7", "addinst", terms=[("1099-div", "box_2a")], cite="7. Capital gain distributions when Schedule D is not required (Form 1099-DIV box 2a)"),
        E("1040", "25b", "addinst", terms=[("1099-r", "box_4"), ("1099-div", "box_4"), ("1099-int", "box_4"), ("1099-g", "box_4")],
          cite="25b. Federal income tax withheld from Form(s) 1099: box 4 of Forms 1099-R, 1099-DIV, 1099-INT and 1099-G (Form 1040 instructions, line 25b: dividends, interest, unemployment compensation ...)"),
        E("1040", "4a_plus_4b", "ira4",
          cite="Form 1040 instructions, lines 4a and 4b (IRA distributions): a fully taxable distribution goes on line 4b (4a blank); with exception 1 (rollover), "
               "2 (Form 8606) or 3 (qualified charitable distribution) the total goes on line 4a and the taxable part (Form 8606 for exception 2) on line 4b -- "
               "so 4a + 4b is the total of box 1 of every Form 1099-R with the IRA/SEP/SIMPLE box checked (you AND spouse) plus the Form 8606 taxable amounts"),
        E("1040", "25c", "addopt", ["8959.24", "in:other_federal_withholding"], need="in:other_federal_withholding",
          cite="25c. Other forms: Form 8959 line 24 (Additional Medicare Tax withholding) plus the other federal income tax withheld the filer reports (Form 1040 instructions, line 25c)"),
        E("1040", "26", "same", ["in:estimated_tax_payments"], cite="26. %d estimated tax payments and amount applied from the previous return" % year),
        E("1040", "35a", "sub", ["36", "34"], cite="35a. Amount of line 34 you want refunded to you (line 34 minus line 36)"),
        E("8995", "6", "addinst", terms=[("1099-div", "box_5")], cite="Form 8995 line 6: qualified REIT dividends (section 199A dividends, Form 1099-DIV box 5)"),
        E("8995", "11", "subx", ["1040.12", "1040.11"] if year != 2021 else ["1040.12c", "1040.11"], cite="Form 8995 line 11: taxable income before the qualified business income deduction (Form 1040 line 11 minus line 12)"),
        E("8995", "12", "add", ["1040.3a", "1040.7"], cite="Form 8995 line 12: net capital gain: qualified dividends plus capital gain (Form 1040 lines 3a and 7)"),
        E("8959", "1", "addinst", terms=[("w-2", "box_5")], cite="Form 8959 line 1: Medicare wages and tips from Form W-2, box 5 (total of all W-2s)"),
        E("8959", "19", "addinst", terms=[("w-2", "box_6")], cite="Form 8959 line 19: Medicare tax withheld from Form W-2, box 6 (total of all W-2s)"),
    ] + ([] if year == 2021 else [     # (2021: pensions are a declared, not-supported situation -- the return says so itself, C09)
        E("1040", "5a", "pens5", box="box_1", cite="5a. Pensions and annuities: the total of box 1 of the Forms 1099-R that are not IRA distributions (Form 1040 instructions, lines 5a and 5b)"),
        E("1040", "5b", "pens5", box="box_2a", cite="5b. Taxable amount: box 2a of those Forms 1099-R (Form 1040 instructions, lines 5a and 5b: fully taxable / taxable amount determined by the payer)"),
    ]) + ([E("1040_recovery_rebate_credit_wkst", "6", "rrc6", ["2", "3", "4", "5"],
            cite="2021 Recovery Rebate Credit Worksheet (Form 1040 instructions, line 30), line 6: $1,400 ($2,800 if married filing jointly and you answered Yes to question 2 or 3)")]
         if year == 2021 else []) + [
        E("1040_s3", "1", "addinst", terms=[("1099-int", "box_6"), ("1099-div", "box_7")],
          cite="Schedule 3 line 1, election not to file Form 1116 (Form 1040 instructions): the foreign taxes shown on Forms 1099-INT (box 6) and 1099-DIV (box 7), all copies", cond_nonzero=True),
        E("1040_sa", "8a", "addinst", terms=[("1098", "box_1"), ("1098", "box_6")], cite="Schedule A line 8a: home mortgage interest and points reported on Form 1098"),
        # Schedule A
        E("1040_sa", "5e", "minconst", ["5d"], consts=SALT, cite="5e. Enter the smaller of line 5d or $10,000 ($5,000 if married filing separately)"),
        E("1040_sa", "17", "add", ["4", "7", "10", "14", "15", "16"], cite="17. Add the amounts in the far right column for lines 4 through 16"),
        # Schedule B
        E("1040_sb", "2", "addprefix", prefix="1_amount_", cite="2. Add the amounts on line 1"),
        E("1040_sb", "6", "addprefix", prefix="5_amount_", cite="6. Add the amounts on line 5"),
        # Qualified dividends and capital gain tax worksheet
        E(W, "1", "carry", src="1040.15", cite=cw + " 1"), E(W, "2", "carry", src="1040.3a", cite=cw + " 2"), E(W, "3", "carry", src="1040.7", cite=cw + " 3 (not filing Schedule D)"),
        E(W, "4", "add", ["2", "3"], cite=cw + " 4"), E(W, "5", "max0sub", ["4", "1"], cite=cw + " 5. Subtract line 4 from line 1. If zero or less, enter -0-"),
        E(W, "6", "const", consts=CG0[year], cite=cw + " 6"), E(W, "7", "min", ["1", "6"], cite=cw + " 7"), E(W, "8", "min", ["5", "7"], cite=cw + " 8"),
        E(W, "9", "sub", ["8", "7"], cite=cw + " 9"), E(W, "10", "min", ["1", "4"], cite=cw + " 10"), E(W, "11", "same", ["9"], cite=cw + " 11"),
        E(W, "12", "sub", ["11", "10"], cite=cw + " 12"), E(W, "13", "const", consts=CG15[year], cite=cw + " 13"), E(W, "14", "min", ["1", "13"], cite=cw + " 14"),
        E(W, "15", "add", ["5", "9"], cite=cw + " 15"), E(W, "16", "max0sub", ["15", "14"], cite=cw + " 16"), E(W, "17", "min", ["12", "16"], cite=cw + " 17"),
        E(W, "18", "mul", ["17"], num=15, den=100, cite=cw + " 18"), E(W, "19", "add", ["9", "17"], cite=cw + " 19"), E(W, "20", "sub", ["19", "10"], cite=cw + " 20"),
        E(W, "21", "mul", ["20"], num=20, den=100, cite=cw + " 21"), E(W, "23", "add", ["18", "21", "22"], cite=cw + " 23"), E(W, "25", "min", ["23", "24"], cite=cw + " 25"),
    ]
    S2 = "1040_s2_need_6251"
    c2 = "Worksheet To See if You Should Fill in Form 6251 - Schedule 2, line 1 (Form 1040 instructions %d)" % year
    out += [
        E(S2, "5", "sub", ["4", "3"], cite=c2 + " 5. Subtract line 4 from line 3"),
        E(S2, "6", "const", consts=AMT_EX[year], cite=c2 + " 6"),
        E(S2, "8", "const", consts=AMT_PH[year], cite=c2 + " 8"),
        E(S2, "9", "max0sub", ["8", "5"], cite=c2 + " 9. Is the amount on line 5 more than the amount on line 8? No: enter -0-. Yes: subtract line 8 from line 5"),
        E(S2, "12", "mul", ["11"], num=26, den=100, cite=c2 + " 12. Multiply line 11 by 26% (0.26)"),
    ]
    if year != 2021:
        out += [
            E("1040_s8812", "9", "const", consts=CTC_PH, cite="9. Enter the amount shown below for your filing status: married filing jointly $400,000, all others $200,000"),
            E("1040_s8812", "10", "ceil1000", ["9", "3"], cite="10. Subtract line 9 from line 3; if more than zero and not a multiple of $1,000, enter the next multiple of $1,000"),
            E("1040_s8812", "12", "sub", ["11", "8"], cond="1040_s8812.8_gt_11", condis=1, cite="12. Is line 8 more than line 11? Yes: subtract line 11 from line 8"),
            E("1040_s8812", "13", "same", ["clwkst_a_5"], cite="13. Enter the amount from Credit Limit Worksheet A"),
            E("1040_s8812", "16b", "mulk", ["4"], k=ACTC[year], cite="16b. Number of qualifying children under 17 x $%d" % ACTC[year]),
            E("1040_s8812", "clwkst_a_1", "carry", src="1040.18", cite="Credit Limit Worksheet A 1. Enter the amount from Form 1040 line 18"),
            E("1040_s8812", "clwkst_a_3", "sub", ["clwkst_a_2", "clwkst_a_1"], cite="Credit Limit Worksheet A 3. Subtract line 2 from line 1"),
            E("1040_s8812", "clwkst_a_5", "sub", ["clwkst_a_4", "clwkst_a_3"], cite="Credit Limit Worksheet A 5. Subtract line 4 from line 3"),
            E("1040", "28", "carry", src="1040_s8812.27", cite="28. Additional child tax credit from Schedule 8812"),
        ]
    def same_in(form, line, inp, cite, **kw):
        return E(form, line, "same", ["in:" + inp], cite=cite, tol_min=1, **kw)     # an answer typed with more than two decimals: either neighbouring cent
    c86 = "Form 8606 (%d) " % year
    out += [
        # Form 8606 (Nondeductible IRAs): the lines the template's text does not turn into arithmetic
        same_in("8606", "1", "nondeductible_contributions", c86 + "1. Enter your nondeductible contributions to traditional IRAs for the year"),
        same_in("8606", "2", "traditional_basis", c86 + "2. Enter your total basis in traditional IRAs"),
        same_in("8606", "4", "nondeductible_contributions_next_year", c86 + "4. Enter those contributions included on line 1 that were made from January 1 through the due date of the following year"),
        same_in("8606", "6", "year_end_value_non_roth", c86 + "6. Enter the value of all your traditional, SEP, and SIMPLE IRAs as of December 31 plus any outstanding rollovers"),
        same_in("8606", "7", "distributions_%d" % year, c86 + "7. Enter your distributions from traditional, SEP, and SIMPLE IRAs in the year"),
        same_in("8606", "8", "net_converted", c86 + "8. Enter the net amount you converted from traditional, SEP, and SIMPLE IRAs to Roth IRAs"),
        E("8606", "10", "ratio", ["5", "9"], cite=c86 + "10. Divide line 5 by line 9. Enter the result as a decimal rounded to at least 3 places. If the result is 1.000 or more, enter 1.000"),
        E("8606", "14", "sub", ["13", "3"], cond="in:distribution_or_roth_conversion", condis=1, exact_sub=True, cite=c86 + "14. Subtract line 13 from line 3. This is your total basis in traditional IRAs"),
        E("8606", "14", "same", ["3"], cond="in:distribution_or_roth_conversion", condis=0,
          cite=c86 + "line 5 note: if you did not take a distribution or make a conversion, do not complete the rest of Part I: enter the amount from line 3 on line 14"),
        E("8606", "16", "same", ["8"], cond="in:part_1_needed", condis=1, cite=c86 + "16. If you completed Part I, enter the amount from line 8"),
        same_in("8606", "16", "net_converted", c86 + "16. ... Otherwise, enter the net amount you converted from traditional, SEP, and SIMPLE IRAs to Roth IRAs"),
        E("8606", "17", "same", ["11"], cond="in:part_1_needed", condis=1, cite=c86 + "17. If you completed Part I, enter the amount from line 11"),
        same_in("8606", "17", "converted_cost_basis", c86 + "17. ... Otherwise, enter your basis in the amount on line 16", cond="in:part_1_needed", condis=0),
        same_in("8606", "19", "total_nonqualified_distributions", c86 + "19. Enter your total nonqualified distributions from Roth IRAs"),
        same_in("8606", "20", "qualified_homebuyer", c86 + "20. Qualified first-time homebuyer expenses"),
        same_in("8606", "22", "roth_ira_contributions_basis", c86 + "22. Enter your basis in Roth IRA contributions"),
        E("8606", "taxable_amount", "t8606", cite="Form 1040 instructions, line 4b with Form 8606: the taxable amounts of Form 8606 line 15c (Part I), line 18 (Part II) and line 25c (Part III)"),
        # Form 8959 (Additional Medicare Tax)
        E("8959", "5", "const", consts=AMED, cite="Form 8959 line 5: married filing jointly $250,000, married filing separately $125,000, single, head of household or qualifying surviving spouse $200,000"),
        E("8959", "9", "const", consts=AMED, cite="Form 8959 line 9: same amounts as line 5"),
        E("8959", "15", "const", consts=AMED, cite="Form 8959 line 15: same amounts as line 5"),
        E("8959", "2", "zero", cite="Form 8959 line 2: unreported tips from Form 4137 line 6 (Form 4137 is not supported: nothing to enter)"),
        E("8959", "3", "zero", cite="Form 8959 line 3: wages from Form 8919 line 6 (not supported: nothing to enter)"),
        E("8959", "8", "zero", cite="Form 8959 line 8: self-employment income from Schedule SE (not supported: nothing to enter)"),
        E("8959", "14", "zero", cite="Form 8959 line 14: railroad retirement (RRTA) compensation (not supported: nothing to enter)"),
        E("8959", "23", "zero", cite="Form 8959 line 23: Additional Medicare Tax withholding on RRTA compensation (not supported: nothing to enter)"),
        # Form 8889 (Health Savings Accounts)
        same_in("8889", "2", "hsa_contributions", "Form 8889 line 2: HSA contributions you made for the year (not employer contributions)"),
        E("8889", "3", "const", consts=[HSA_FAMILY[year]] * 5, cond="1", condis=1, cite="Form 8889 line 3: under age 55 with family coverage all year: $%d" % HSA_FAMILY[year]),
        E("8889", "3", "const", consts=[HSA_SELF[year]] * 5, cond="1", condis=0, cite="Form 8889 line 3: under age 55 with self-only coverage all year: $%d" % HSA_SELF[year]),
        E("8889", "4", "zero", cite="Form 8889 line 4: Archer MSA contributions (Form 8853 is not supported: nothing to enter)"),
        E("8889", "7", "zero", cite="Form 8889 line 7: additional contribution amount for age 55 or older (not supported: nothing to enter)"),
        same_in("8889", "9", "employer_contribution", "Form 8889 line 9: employer contributions made to your HSAs (Form W-2 box 12 code W)"),
        E("8889", "10", "zero", cite="Form 8889 line 10: qualified HSA funding distributions (not supported: nothing to enter)"),
        E("8889", "hsa_deduction", "same", ["13"], cite="Form 8889 line 13: HSA deduction, enter here and on Schedule 1"),
        # Schedule A: the amounts the filer is told to enter, and the withheld state and local income taxes
        same_in("1040_sa", "1", "medical_dental_expenses", "Schedule A line 1: medical and dental expenses"),
        E("1040_sa", "5a", "addinst", terms=[("w-2", "box_17"), ("w-2", "box_19"), ("1099-g", "box_11_1"), ("1099-g", "box_11_2"), ("1099-div", "box_16_1"), ("1099-div", "box_16_2"),
                                             ("1099-int", "box_17_1"), ("1099-int", "box_17_2"), ("1099-r", "box_14_1"), ("1099-r", "box_14_2"), ("1099-r", "box_17_1"), ("1099-r", "box_17_2")],
          cite="Schedule A instructions, line 5a: state and local income taxes withheld from your salary (Form W-2 boxes 17 and 19); Forms W-2G, 1099-G, 1099-R, 1099-MISC and 1099-NEC "
               "may also show state and local income taxes withheld (the state and local tax withheld boxes of every Form W-2 and 1099 copy)"),
        same_in("1040_sa", "5b", "state_local_real_estate_taxes", "Schedule A line 5b: state and local real estate taxes"),
        same_in("1040_sa", "5c", "state_local_personal_property_taxes", "Schedule A line 5c: state and local personal property taxes"),
        same_in("1040_sa", "6", "other_taxes_amount", "Schedule A line 6: other taxes, list type and amount"),
        same_in("1040_sa", "11", "charitable_cash_check", "Schedule A line 11: gifts by cash or check"),
        same_in("1040_sa", "12", "charitable_other_than_cash_check", "Schedule A line 12: gifts other than by cash or check"),
        same_in("1040_sa", "13", "charitable_carryover", "Schedule A line 13: carryover from prior year"),
        E("1040_sa", "9", "zero", cite="Schedule A line 9: investment interest (Form 4952 is not supported: nothing to enter)"),
        E("1040_sa", "15", "zero", cite="Schedule A line 15: casualty and theft losses (Form 4684 is not supported: nothing to enter)"),
    ]
    n, d = NC_RATE[year]
    nc = "NC Form D-400 (%d), text of the bundled PDF" % year
    out += [
        E("nc_d-400", "6", "carry", src="1040.11", cite=nc + " 6. Federal Adjusted Gross Income"),
        E("nc_d-400", "20a_plus_20b", "addstate", state="NC", tol=100,
          terms=[("w-2", "box_15", "box_17"), ("1099-g", "box_10a_1", "box_11_1"), ("1099-g", "box_10a_2", "box_11_2"),
                 ("1099-int", "box_15_1", "box_17_1"), ("1099-int", "box_15_2", "box_17_2"), ("1099-div", "box_14_1", "box_16_1"),
                 ("1099-div", "box_14_2", "box_16_2"), ("1099-r", "box_14_1_state", "box_14_1"), ("1099-r", "box_14_2_state", "box_14_2")],
          cite=nc + " 20. North Carolina Income Tax Withheld (a. your tax withheld, b. spouse's tax withheld): the N.C. tax withheld shown on Forms W-2 and 1099 -- every state row that names NC"),
        E("nc_d-400", "7", "carry", src="nc_d-400_ss." + NC_SS_TOTAL_ADDITIONS[year], cite="Schedule S: Total Additions - Add Lines 1 through %s (Enter the total here and on Form D-400, Line 7)" % ("14" if year == 2021 else "15")),
        E("nc_d-400", "8", "add", ["6", "7"], cite=nc + " 8. Add Lines 6 and 7"),
        E("nc_d-400", "9", "carry", src="nc_d-400_ss." + NC_SS_TOTAL_DEDUCTIONS[year], cite="Schedule S: Total Deductions (Enter the total here and on Form D-400, Line 9)"),
        E("nc_d-400", "10b", "carry", src="nc_d-400_child_deduction_wkst.5", cite=nc + " 10b child deduction (worksheet)"),
        E("nc_d-400", "12a", "add", ["9", "10b", "11"], cite=nc + " 12a. Add Lines 9, 10b, and 11"),
        E("nc_d-400", "12b", "sub", ["12a", "8"], exact_sub=True, cite=nc + " 12b. Subtract Line 12a from Line 8"),
        E("nc_d-400", "14", "same", ["12b"], cite=nc + " 14. North Carolina Taxable Income, full-year residents enter the amount from Line 12b"),
        E("nc_d-400", "15", "mul", ["14"], num=n, den=d, floor=True, cite=nc + " 15. North Carolina Income Tax: multiply Line 14 by the rate; if zero or less, enter a zero"),
        E("nc_d-400", "17", "sub", ["16", "15"], cite=nc + " 17. Subtract Line 16 from Line 15"),
        E("nc_d-400", "19", "add", ["17", "18"], cite=nc + " 19. Add Lines 17 and 18"),
        E("nc_d-400", "23", "add", ["20a", "20b", "21a", "21b", "21c", "21d", "22"], cite=nc + " 23. Add Lines 20a through 22"),
        E("nc_d-400", "25", "sub", ["24", "23"], cite=nc + " 25. Subtract Line 24 from Line 23"),
        E("nc_d-400", "26d", "add", ["26b", "26c"], cite=nc + " 26d. Add Lines 26b and 26c"),
        E("nc_d-400", "27", "add", ["26a", "26d", "26e"], cite=nc + " 27. Add Lines 26a, 26d, and 26e"),
        E("nc_d-400", "33", "add", ["29", "30", "31", "32"], cite=nc + " 33. Add Lines 29 through 32"),
        E("nc_d-400", "34", "sub", ["33", "28"], cite=nc + " 34. Subtract Line 33 from Line 28"),
        E("nc_d-400_sa", "nc_standard_deduction", "const", consts=NC_STD[year], cond="1040.standard_deduction_exceptions", condis=0, cite="N.C. standard deduction chart (D-401)"),
        E("nc_d-400_sa", "3", "add", ["1", "2"], cite="Schedule A 3. Add Lines 1 and 2"),
        E("nc_d-400_sa", "5", "min", ["3", "4"], cite="Schedule A 5. Enter the lesser of Line 3 or Line 4"),
        E("nc_d-400_sa", "7c", "mul", ["7b"], num=75, den=1000, floor=True, cite="Schedule A 7c. Multiply Line 7b by 7.5% (0.075)"),
        E("nc_d-400_sa", "7d", "max0sub", ["7c", "7a"], cite="Schedule A 7d. Subtract Line 7c from Line 7a; if 7c is more than 7a enter zero"),
        E("nc_d-400_sa", "10", "add", ["5", "6", "7d", "8", "9"], cite="Schedule A 10. Add Lines 5, 6, 7d, 8, and 9"),
        E("nc_d-400_child_deduction_wkst", "2", "carry", src="nc_d-400.6", cite="Child deduction worksheet 2. Enter the amount from Form D-400, Line 6"),
        E("nc_d-400_child_deduction_wkst", "5", "mulcnt", ["3", "4"], cite="Child deduction worksheet 5. Multiply the number of children (line 3) by the deduction per child (line 4)"),
        E("nc_d-400", "10a", "carry", src="nc_d-400_child_deduction_wkst.3", cite="D-400 line 10a: number of qualifying children (worksheet line 3)"),
        E("nc_d-400_sa", "deduction", "max", ["nc_standard_deduction", "10"], cite="D-400 line 11: the N.C. standard deduction or the N.C. itemized deductions, whichever is larger"),
        E("nc_d-400_sa", "7b", "carry", src="nc_d-400.6", cite="Schedule A 7b. Enter amount from Form D-400, Line 6"),
        E("nc_d-400_ss", NC_SS_TOTAL_ADDITIONS[year], "add", [str(k) for k in range(1, int(NC_SS_TOTAL_ADDITIONS[year]))], cite="Schedule S: Total Additions - Add Lines 1 through %d" % (int(NC_SS_TOTAL_ADDITIONS[year]) - 1)),
    ]
    ncw = "nc_d-400_consumer_use_tax_wkst"
    out += [
        # D-400: choice of deduction, lines the program leaves empty, amounts the filer is told to enter, tax due / overpayment
        E("nc_d-400", "11", "carry", src="nc_d-400_sa.deduction", cond="nc_d-400.11_itemizing", condis=1, cite=nc + " 11. N.C. standard deduction OR N.C. itemized deductions (Schedule A)"),
        E("nc_d-400", "11", "carry", src="nc_d-400_sa.nc_standard_deduction", cond="nc_d-400.11_itemizing", condis=0, cite=nc + " 11. N.C. standard deduction (box not filled for itemized deductions)"),
        E("nc_d-400", "13", "zero", cite=nc + " 13. Part-year residents and nonresidents only (not supported: nothing to enter)"),
        E("nc_d-400", "16", "zero", cite=nc + " 16. Tax credits from Form D-400TC (not supported: nothing to enter)"),
        E("nc_d-400", "22", "zero", cite=nc + " 22. Amended returns only (not supported: nothing to enter)"),
        E("nc_d-400", "24", "zero", cite=nc + " 24. Amended returns only (not supported: nothing to enter)"),
        E("nc_d-400", "26b", "zero", cite=nc + " 26b. Penalties (not supported: nothing to enter)"),
        E("nc_d-400", "26c", "zero", cite=nc + " 26c. Interest (not supported: nothing to enter)"),
        E("nc_d-400", "18", "zero", cond="nc_d-400.no_consumer_use_tax", condis=1, cite=nc + " 18. Consumer use tax: the circle 'no use tax is due' is filled in"),
        E("nc_d-400", "18", "carry", src=ncw + ".consumer_use_tax", cond="nc_d-400.no_consumer_use_tax", condis=0, cite=nc + " 18. Consumer use tax (worksheet)"),
        same_in("nc_d-400", "21a", "estimated_tax", nc + " 21a. Other tax payments: estimated tax"),
        same_in("nc_d-400", "21b", "paid_with_extension", nc + " 21b. Paid with extension"),
        same_in("nc_d-400", "21c", "partnership_payments", nc + " 21c. Partnership"),
        same_in("nc_d-400", "21d", "s_corp_payments", nc + " 21d. S corporation"),
        E("nc_d-400", "26a", "sub", ["25", "19"], exact_sub=True, cite=nc + " 26a. Tax due: if Line 25 is less than Line 19, subtract Line 25 from Line 19"),
        E("nc_d-400", "28", "sub", ["19", "25"], exact_sub=True, cite=nc + " 28. Overpayment: if Line 25 is more than Line 19, subtract Line 19 from Line 25"),
        same_in("nc_d-400", "29", "%d_estimated_income_tax" % {2021: 2022, 2022: 2022, 2023: 2024}[year], nc + " 29. Amount of Line 28 to be applied to next year's estimated income tax"),
        same_in("nc_d-400", "30", "nc_nongame_endangered_wildlife", nc + " 30. Contribution to the N.C. Nongame and Endangered Wildlife Fund"),
        same_in("nc_d-400", "31", "nc_education_endowment", nc + " 31. Contribution to the N.C. Education Endowment Fund"),
        same_in("nc_d-400", "32", "nc_breast_cervical_cancer", nc + " 32. Contribution to the N.C. Breast and Cervical Cancer Control Program"),
    ]
    # consumer use tax worksheet (D-400 instructions, "Consumer Use Tax Worksheet"; the 2022 form has two half-years with their own rates)
    if year == 2022:
        out += [
            same_in(ncw, "1", "out_of_state_purchases_pre_oct", "Use tax worksheet (2022) 1. Purchases before October 1 on which no N.C. tax was paid"),
            same_in(ncw, "3", "out_of_state_purchases_post_oct", "Use tax worksheet (2022) 3. Purchases from October 1 on which no N.C. tax was paid"),
            E(ncw, "2", "mull", ["1", "in:county_tax_pct_pre_oct"], cite="Use tax worksheet (2022) 2. Multiply line 1 by the tax rate of your county"),
            E(ncw, "4", "mull", ["3", "in:county_tax_pct_post_oct"], cite="Use tax worksheet (2022) 4. Multiply line 3 by the tax rate of your county"),
            E(ncw, "consumer_use_tax", "same", ["6"], cond="in:full_records", condis=1, cite="D-400 line 18 instructions: with complete records, the use tax computed on the worksheet"),
        ]
    else:
        out += [
            same_in(ncw, "1", "out_of_state_purchases", "Use tax worksheet 1. Purchases on which no N.C. tax was paid"),
            E(ncw, "2", "mull", ["1", "in:county_tax_pct"], cite="Use tax worksheet 2. Multiply line 1 by the tax rate of your county"),
            E(ncw, "3", "min", ["in:other_state_sales_tax", "2"], tol=50, cite="Use tax worksheet 3. Tax paid to another state, not more than the N.C. tax on line 2"),
            E(ncw, "4", "sub", ["3", "2"], exact_sub=True, cite="Use tax worksheet 4. Subtract line 3 from line 2"),
            E(ncw, "consumer_use_tax", "same", ["4"], cond="in:full_records", condis=1, cite="D-400 line 18 instructions: with complete records, the use tax computed on the worksheet"),
        ]
    out += [
        E(ncw, "consumer_use_tax", "same", ["estimate"], cond="in:full_records", condis=0, cite="D-400 line 18 instructions: without complete records, the estimate from the Use Tax Table"),
        # child deduction worksheet line 4: the table of the D-400 instructions (2021: $2,500 at most; from 2022: $3,000 at most)
        E("nc_d-400_child_deduction_wkst", "4", "ncchild", ["2"], consts=[20000, 40000, 20000, 30000, 40000], den=(2500 if year == 2021 else 3000),
          cite="D-400 instructions, Child Deduction table: married filing jointly / surviving spouse up to $40,000, head of household up to $30,000, single / married filing separately "
               "up to $20,000: $%d per child; $500 less for each further band (half of that first limit wide); nothing above the last band" % (2500 if year == 2021 else 3000)),
    ]
    return out
