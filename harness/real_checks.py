"""The solver properties on the SHIPPED forms: explored returns (scenarios.py) and the repository's
own tests, every run validated by SolverTrace.tla (real mode), runs with equal inputs compared."""
import json
import os
import random
import subprocess
import sys

import common
import runs
import scenarios


def explore(tier, seed_, years=scenarios.YEARS, per_year=None, replays=True, snap="scalars", nc_rate=0.3):
    """-> list of scenario dicts: year, request, profile, given, base (trace,res), variants [(label, trace, res)]"""
    per_year = per_year or (10 if tier == "quick" else 150)
    out = []
    tid = 0
    for year in years:
        for k in range(per_year):
            rng = random.Random("%d-%d-%d" % (seed_, year, k))
            p = scenarios.Profile(rng, year=year, nc=rng.random() < nc_rate)
            request = ["1040"] + (["nc_d-400"] if p.nc else [])
            tid += 1
            tr, res, solver, ans = scenarios.solve_scenario(year, request, p, rng, tid=tid, snap=snap)
            sc = {"year": year, "request": request, "profile": p.describe(), "given": dict(ans.given), "kinds": dict(ans.kinds),
                  "trace": tr, "res": res, "variants": [], "sid": "%d/%d" % (year, k), "solver": solver}
            if replays:
                # the same inputs from a file: random schedule + reversed request; reversed schedule
                variants = [("file-rnd", runs.random_chooser(random.Random(k)), list(reversed(request))),
                            ("file-rev", runs.reverse_chooser, request)]
                # forms with instances that the return pulled in completely (all their required lines are in the solution),
                # now ALSO requested by name: the same forms take part, so the result must be the same
                from habutax.form import InputForm
                named = []
                if not res["abort"]:
                    for fname, fobj in solver.forms.items():
                        if ":" in fname and not isinstance(fobj, InputForm) and fobj.required_fields() and \
                                all(x.name() in res["values"] for x in fobj.required_fields()):
                            named.append(fname)
                if named:
                    variants.append(("file-named", None, request + sorted(named)))
                variants.append(("file-typed", None, request))
                for label, chooser, req in variants:
                    tid += 1
                    # the answers as the solve command writes them back (InputStore.write), re-read from that FILE
                    wdir = common.mkwork("hv_wb_")
                    conf = os.path.join(wdir, "written_back.habutax")
                    open(conf, "w").close()          # the command writes back into the (existing) input file
                    if label == "file-typed":
                        # the answers exactly as they were typed, put into a file by hand
                        with open(conf, "w") as fh:
                            runs.make_config({k2: v.replace("%", "%%") for k2, v in ans.given.items()}).write(fh)
                    else:
                        solver._i.write(conf)
                    import habutax.forms as F
                    try:
                        t2, r2, _s = runs.run_traced(F.available_forms[year], conf, req, (), user=None, chooser=chooser, mode="real",
                                                     snap=snap, tid=tid, meta={"year": year, "request": req, "label": label, "sid": sc["sid"]})
                    finally:
                        common.rmwork(wdir)
                    sc["variants"].append((label, t2, r2))
            out.append(sc)
    # a few plain, deliberately chosen returns per year (the random profiles reach these windows only now and then)
    for year in years:
        for k, (force, counts, ov) in enumerate(DIRECTED):
            rng = random.Random("dir-%d-%d-%d" % (seed_, year, k))
            base = dict(nc=False, itemize=False, sched1_adjust=False, ira=False, qualified_div=False, foreign_tax=False,
                        hsa_you=False, hsa_spouse=False, f8606=False, div_heavy=False, dup_w2=False, plain_payers=True)
            base.update(force)
            p = scenarios.Profile(rng, year=year, **base)
            p.n = dict({"w-2": 1, "1099-int": 0, "1099-div": 0, "1099-r": 0, "1099-g": 0, "1098": 0, "1099-oid": 0}, **counts)
            tid += 1
            request = ["1040"] + (["nc_d-400"] if p.nc else [])
            tr, res, solver, ans = scenarios.solve_scenario(year, request, p, rng, tid=tid, snap=snap, overrides={k2.replace("{year}", str(year)): v2 for k2, v2 in ov.items()})
            out.append({"year": year, "request": request, "profile": p.describe(), "given": dict(ans.given), "kinds": dict(ans.kinds),
                        "trace": tr, "res": res, "variants": [], "sid": "%d/d%d" % (year, k), "solver": solver})
    return out


# (profile settings, payer counts, answers): one child-credit child and one other dependent, with (2021) advance payments that
# exceed the child's part of the credit; the same with advance payments below it
DIRECTED = [
    ({"status": "HeadOfHousehold", "dependents": 2, "ctc": [True, False, False, False], "under6": [False, False, False, False], "wage_scale": 120000},
     {}, {"1040.dependent_1_odc": "yes", "1040_s8812.advance_ctc_payments": "3250.00", "w-2:0.box_1": "100000.00", "w-2:0.box_2": "9000.00"}),
    ({"status": "MarriedFilingJointly", "dependents": 3, "ctc": [True, True, False, False], "under6": [True, False, False, False], "wage_scale": 120000},
     {}, {"1040.dependent_2_odc": "yes", "1040_s8812.advance_ctc_payments": "1500.00", "w-2:0.box_1": "140000.00", "w-2:0.box_2": "15000.00"}),
    # NC return with records of out-of-state purchases on which another state charged more than NC would
    ({"status": "Single", "dependents": 0, "wage_scale": 60000, "nc": True},
     {"1098": 1},
     {"nc_d-400.no_consumer_use_tax": "no", "nc_d-400_consumer_use_tax_wkst.full_records": "yes", "nc_d-400_consumer_use_tax_wkst.out_of_state_purchases": "1000.00",
      "nc_d-400_consumer_use_tax_wkst.county_tax_pct": "0.07", "nc_d-400_consumer_use_tax_wkst.other_state_sales_tax": "80.00",
      "w-2:0.box_1": "70000.00", "w-2:0.box_2": "8000.00", "w-2:0.box_16": "70000.00", "w-2:0.box_17": "3000.00"}),
    # the same with nothing paid to another state (the whole NC tax is due), 2022 names of the two half-years included
    ({"status": "Single", "dependents": 0, "wage_scale": 60000, "nc": True},
     {"1098": 1},
     {"nc_d-400.no_consumer_use_tax": "no", "nc_d-400_consumer_use_tax_wkst.full_records": "yes", "nc_d-400_consumer_use_tax_wkst.out_of_state_purchases": "1000.00",
      "nc_d-400_consumer_use_tax_wkst.out_of_state_purchases_pre_oct": "600.00", "nc_d-400_consumer_use_tax_wkst.out_of_state_purchases_post_oct": "400.00",
      "nc_d-400_consumer_use_tax_wkst.county_tax_pct": "0.07", "nc_d-400_consumer_use_tax_wkst.county_tax_pct_pre_oct": "0.07",
      "nc_d-400_consumer_use_tax_wkst.county_tax_pct_post_oct": "0.0725", "nc_d-400_consumer_use_tax_wkst.other_state_sales_tax": "0.00",
      "w-2:0.box_1": "70000.00", "w-2:0.box_2": "8000.00", "w-2:0.box_16": "70000.00", "w-2:0.box_17": "3000.00"}),
    # little tax, a child, and foreign tax (credited without Form 1116) above that tax: the credit limit for the child credit is zero, not negative
    # (an OTHER dependent: the refundable part of the child credit is not implemented for 2022 / 2023; interest above the limit that
    # rules the earned income credit out, which is not implemented either)
    ({"status": "HeadOfHousehold", "dependents": 1, "ctc": [False, False, False, False], "under6": [False, False, False, False], "wage_scale": 20000,
      "foreign_tax": True},
     {"1099-int": 1},
     {"w-2:0.box_1": "10000.00", "w-2:0.box_2": "300.00", "1099-int:0.box_1": "11500.00", "1099-int:0.box_6": "290.00", "1040.dependent_0_odc": "yes",
      "1040_s8812.advance_ctc_payments": "0.00", "1040_s3.other_foreign_gross_income": "no"}),
    # (2021) a couple of whom only one has a social security number, no armed-forces exception: recovery rebate of one person
    ({"status": "MarriedFilingJointly", "dependents": 0, "wage_scale": 60000},
     {}, {"1040_recovery_rebate_credit_wkst.ssn_before_due_date": "no", "1040_recovery_rebate_credit_wkst.armed_forces": "no",
          "1040_recovery_rebate_credit_wkst.either_ssn_before_due_date": "yes", "1040_recovery_rebate_credit_wkst.eip_3_amount": "0.00",
          "w-2:0.box_1": "70000.00", "w-2:0.box_2": "8000.00"}),
    # NC return of somebody who owes no NC tax at all (interest only, below the NC deduction): gates must not hide behind a zero tax
    ({"status": "MarriedFilingJointly", "dependents": 0, "wage_scale": 20000, "nc": True},      # (the joint NC deduction leaves room for the odd extra income)
     {"w-2": 0, "1099-int": 1, "1098": 1},
     {"1099-int:0.box_1": "11500.00", "nc_d-400.no_consumer_use_tax": "yes", "nc_d-400.additions_to_agi": "no", "nc_d-400.deductions_from_agi": "no",
      "nc_d-400.try_itemizing": "no"}),
    # a high earner (Additional Medicare Tax, Form 8959) with withholding that is not from a W-2
    ({"status": "Single", "dependents": 0, "wage_scale": 230000},
     {}, {"w-2:0.box_1": "245050.00", "w-2:0.box_3": "147000.00", "w-2:0.box_5": "245050.00", "w-2:0.box_2": "48000.00", "w-2:0.box_6": "3958.68",   # taxable income just below the 35 % bracket of 2023
          "1040.other_federal_withholding": "500.00", "1040.estimated_tax_payments": "1000.00"}),
    # Form 8606 part I: an IRA that fell below its basis (basis above year-end value + distributions): the nontaxable ratio is capped at 1
    ({"status": "Single", "dependents": 0, "wage_scale": 60000, "ira": True, "f8606": True},
     {"1099-r": 1},
     {"1099-r:0.box_1": "4000.00", "1099-r:0.box_2a": "4000.00", "1099-r:0.box_7_ira_sep_simple": "yes", "1099-r:0.belongs_to": "taxpayer",
      "8606:you.part_1_needed": "yes", "8606:you.distribution_or_roth_conversion": "yes", "8606:you.traditional_basis": "30000.00",
      "8606:you.nondeductible_contributions": "0.00", "8606:you.nondeductible_contributions_next_year": "0.00",
      "8606:you.year_end_value_non_roth": "16000.00", "8606:you.distributions_{year}": "4000.00", "8606:you.net_converted": "0.00",
      "8606:you.part_2_needed": "no", "8606:you.part_3_needed": "no", "w-2:0.box_1": "70000.00", "w-2:0.box_2": "8000.00"}),
    # ... and the ordinary case (basis a fraction of the value)
    ({"status": "Single", "dependents": 0, "wage_scale": 60000, "ira": True, "f8606": True},
     {"1099-r": 1},
     {"1099-r:0.box_1": "6000.00", "1099-r:0.box_2a": "6000.00", "1099-r:0.box_7_ira_sep_simple": "yes", "1099-r:0.belongs_to": "taxpayer",
      "8606:you.part_1_needed": "yes", "8606:you.distribution_or_roth_conversion": "yes", "8606:you.traditional_basis": "10000.00",
      "8606:you.nondeductible_contributions": "2000.00", "8606:you.nondeductible_contributions_next_year": "500.00",
      "8606:you.year_end_value_non_roth": "44000.00", "8606:you.distributions_{year}": "6000.00", "8606:you.net_converted": "0.00",
      "8606:you.part_2_needed": "no", "8606:you.part_3_needed": "no", "w-2:0.box_1": "70000.00", "w-2:0.box_2": "8000.00"}),
    # a couple who BOTH took fully taxable IRA distributions (different amounts, no rollover / Form 8606 / charitable distribution), and a pension
    ({"status": "MarriedFilingJointly", "dependents": 0, "wage_scale": 60000, "ira": True, "f8606": False},
     {"1099-r": 3},
     {"1099-r:0.box_1": "3000.00", "1099-r:0.box_2a": "3000.00", "1099-r:0.box_7_ira_sep_simple": "yes", "1099-r:0.belongs_to": "taxpayer",
      "1099-r:1.box_1": "10000.00", "1099-r:1.box_2a": "10000.00", "1099-r:1.box_7_ira_sep_simple": "yes", "1099-r:1.belongs_to": "spouse",
      "1099-r:2.box_1": "5000.00", "1099-r:2.box_2a": "4200.00", "1099-r:2.box_7_ira_sep_simple": "no", "1099-r:2.belongs_to": "spouse",
      "1099-r:2.box_2b_taxable_not_determined": "no",
      "1040.ira_exception1_you": "no", "1040.ira_exception2_you": "no", "1040.ira_exception3_you": "no", "1040.ira_exception4_you": "no",
      "1040.ira_exception1_spouse": "no", "1040.ira_exception2_spouse": "no", "1040.ira_exception3_spouse": "no", "1040.ira_exception4_spouse": "no",
      "1040.pensions_annuities_adjustments": "no", "w-2:0.box_1": "70000.00", "w-2:0.box_2": "8000.00"}),
    # capital gain distributions that fill the 0 % bracket beyond the qualified dividends (worksheet line 9 above line 2)
    ({"status": "Single", "dependents": 0, "wage_scale": 25000, "qualified_div": True},
     {"1099-div": 1},
     {"w-2:0.box_1": "25000.00", "w-2:0.box_2": "1500.00", "1099-div:0.box_1a": "1500.00", "1099-div:0.box_1b": "1000.00", "1099-div:0.box_2a": "30000.00",
      "1099-div:0.box_2b": "0.00", "1099-div:0.box_2c": "0.00", "1099-div:0.box_2d": "0.00", "1099-div:0.box_2e": "0.00", "1099-div:0.box_2f": "0.00",
      "1099-div:0.box_5": "0.00", "1099-div:0.box_7": "0.00", "1099-div:0.box_4": "0.00"}),
    # ... and only the spouse
    ({"status": "MarriedFilingJointly", "dependents": 0, "wage_scale": 60000, "ira": True, "f8606": False},
     {"1099-r": 1},
     {"1099-r:0.box_1": "7500.00", "1099-r:0.box_2a": "7500.00", "1099-r:0.box_7_ira_sep_simple": "yes", "1099-r:0.belongs_to": "spouse",
      "1040.ira_exception1_spouse": "no", "1040.ira_exception2_spouse": "no", "1040.ira_exception3_spouse": "no", "1040.ira_exception4_spouse": "no",
      "w-2:0.box_1": "70000.00", "w-2:0.box_2": "8000.00"}),
    # use tax on purchases entered with cents: the worksheet multiplies the WHOLE-DOLLAR line above by the county rate (121 x 7 % = 8.47 -> 8; the
    # amount as entered, 121.45, would give 8.50 -> 9)
    ({"status": "Single", "dependents": 0, "wage_scale": 60000, "nc": True},
     {"1098": 1},
     {"nc_d-400.no_consumer_use_tax": "no", "nc_d-400_consumer_use_tax_wkst.full_records": "yes", "nc_d-400_consumer_use_tax_wkst.out_of_state_purchases": "121.45",
      "nc_d-400_consumer_use_tax_wkst.out_of_state_purchases_pre_oct": "121.45", "nc_d-400_consumer_use_tax_wkst.out_of_state_purchases_post_oct": "321.43",
      "nc_d-400_consumer_use_tax_wkst.county_tax_pct": "0.07", "nc_d-400_consumer_use_tax_wkst.county_tax_pct_pre_oct": "0.07",
      "nc_d-400_consumer_use_tax_wkst.county_tax_pct_post_oct": "0.07", "nc_d-400_consumer_use_tax_wkst.other_state_sales_tax": "0.00",
      "w-2:0.box_1": "70000.00", "w-2:0.box_2": "8000.00", "w-2:0.box_16": "70000.00", "w-2:0.box_17": "3000.00"}),
    # a couple's NC return with interest on a JOINT account from which N.C. tax was withheld (a payer form owned by both)
    ({"status": "MarriedFilingJointly", "dependents": 0, "wage_scale": 60000, "nc": True},
     {"w-2": 1, "1099-int": 1, "1098": 1},
     {"1099-int:0.belongs_to": "both", "1099-int:0.box_1": "2400.00", "1099-int:0.box_4": "0.00", "1099-int:0.box_15_1": "NC", "1099-int:0.box_17_1": "101.00",
      "1099-int:0.box_15_2": "", "1099-int:0.box_17_2": "0.00", "w-2:0.box_1": "70000.00", "w-2:0.box_2": "8000.00", "w-2:0.box_15": "NC", "w-2:0.box_16": "70000.00",
      "w-2:0.box_17": "3000.00", "nc_d-400.no_consumer_use_tax": "yes", "nc_d-400.additions_to_agi": "no", "nc_d-400.deductions_from_agi": "no", "nc_d-400.try_itemizing": "no"}),
    # children, almost no earned income and a pension too large for the earned income credit: whatever the program makes of the refundable
    # child credit here (today: "not implemented"), the lines computed from earned income below $2,500 must not go negative
    ({"status": "HeadOfHousehold", "dependents": 2, "ctc": [True, True, False, False], "under6": [False, False, False, False], "wage_scale": 20000},
     {"w-2": 0, "1099-r": 1},
     {"1099-r:0.box_1": "53000.00", "1099-r:0.box_2a": "53000.00", "1099-r:0.box_4": "0.00", "1099-r:0.box_7_ira_sep_simple": "no", "1099-r:0.belongs_to": "taxpayer",
      "1099-r:0.box_2b_taxable_not_determined": "no", "1040.pensions_annuities_adjustments": "no", "1040_s8812.advance_ctc_payments": "0.00",
      "1040.non_w-2_household_employee_income": "0.00", "1040.non_w-2_tip_income": "0.00", "1040.non_w-2_medicaid_waiver": "0.00", "1040.other_earned_income": "0.00",
      "1040.taxable_dependent_care": "0.00", "1040.employer_adoption_benefits": "0.00", "1040.wages_8919": "0.00"}),
    # ... and with a little earned income (wages of $1,200)
    ({"status": "HeadOfHousehold", "dependents": 2, "ctc": [True, True, False, False], "under6": [False, False, False, False], "wage_scale": 20000},
     {"w-2": 1, "1099-r": 1},
     {"w-2:0.box_1": "1200.00", "w-2:0.box_2": "0.00", "w-2:0.box_3": "1200.00", "w-2:0.box_5": "1200.00",
      "1099-r:0.box_1": "53000.00", "1099-r:0.box_2a": "53000.00", "1099-r:0.box_4": "0.00", "1099-r:0.box_7_ira_sep_simple": "no", "1099-r:0.belongs_to": "taxpayer",
      "1099-r:0.box_2b_taxable_not_determined": "no", "1040.pensions_annuities_adjustments": "no", "1040_s8812.advance_ctc_payments": "0.00",
      "1040.non_w-2_household_employee_income": "0.00", "1040.non_w-2_tip_income": "0.00", "1040.non_w-2_medicaid_waiver": "0.00", "1040.other_earned_income": "0.00",
      "1040.taxable_dependent_care": "0.00", "1040.employer_adoption_benefits": "0.00", "1040.wages_8919": "0.00"}),
]


def repo_test_traces():
    """traces of every solve() the repository's own test-suite performs"""
    work = common.mkwork()
    try:
        outp = os.path.join(work, "rt.json")
        env = dict(os.environ, PYTHONPATH=os.path.join(common.ROOT, "harness") + os.pathsep + common.REPO, HABUTAX_VERIF="1")
        p = subprocess.run([sys.executable, "-W", "ignore", os.path.join(common.ROOT, "harness", "trace_repo_tests.py"), outp],
                           cwd=common.REPO, env=env, stdout=subprocess.PIPE, stderr=subprocess.STDOUT, text=True, timeout=600)
        if p.returncode != 0 or not os.path.exists(outp):
            raise common.MachineryError("could not trace the repository's tests:\n" + p.stdout[-2000:])
        d = json.load(open(outp))
        for t in d["traces"]:
            t["tid"] = 900000 + t["tid"]
        return d
    finally:
        common.rmwork(work)


def cli_report_check(scs, rep, cov, tier):
    """the solve command's printed verdict against the solver's own (CliReport.tla)"""
    import re
    import cli_driver
    import content_checks
    obs, meta = [], {}
    work = common.mkwork()
    try:
        import random
        import habutax.forms as F
        # a mix of verdicts: explored returns as they are (solved, or stopped at unimplemented lines), and the same returns
        # with a few answers taken away (missing inputs and the lines blocked behind them, often next to unimplemented ones)
        chosen = []
        by_kind = {}
        for sc in scs:
            kind = "abort" if sc["res"]["abort"] else ("solved" if sc["res"].get("solved") else "failed")
            by_kind.setdefault(kind, []).append(sc)
        per = 4 if tier == "quick" else 70
        for kind in sorted(by_kind):
            chosen += by_kind[kind][:per]
        cases = []
        n_removed = 0
        removed_names = []
        for n, sc in enumerate(chosen):
            cases.append((sc, dict(sc["given"]), sc["res"]))
            rng = random.Random("cli-%s" % sc["sid"])
            keys = sorted(sc["given"])
            if len(keys) > 4:
                g2 = dict(sc["given"])
                for k2 in rng.sample(keys, rng.choice([1, 2, 4])):
                    del g2[k2]
                conf2 = runs.make_config({k3: v.replace("%", "%%") for k3, v in g2.items()})
                _t, res2, _s = runs.run_traced(F.available_forms[sc["year"]], conf2, sc["request"], (), user=None, mode="real", snap="none", max_events=30000)
                cases.append((dict(sc, given=g2, sid=sc["sid"] + "/less"), g2, res2))
            # ONE answer that the complete run read is taken away (first choice: one that may be left blank -- absent is not blank):
            # the line that read it runs into the gap after the same reads as before, so the run cannot end as solved
            if sc["res"].get("solved") and sc.get("trace") and sc.get("solver") is not None:
                read_in = sorted(set(n for ev in sc["trace"]["events"] if ev["ev"] == "attempt" for (k3, n, _d) in ev["reads"] if k3 == "in" and n in sc["given"]))
                specs = sc["solver"]._input_map
                blankable = [n for n in read_in if getattr(specs.get(n), "allow_empty", False)]
                for pick in ([rng.choice(blankable)] if blankable else []) + ([rng.choice(read_in)] if read_in else []):
                    g3 = dict(sc["given"])
                    del g3[pick]
                    conf3 = runs.make_config({k3: v.replace("%", "%%") for k3, v in g3.items()})
                    _t, res3, _s = runs.run_traced(F.available_forms[sc["year"]], conf3, sc["request"], (), user=None, mode="real", snap="none", max_events=30000)
                    n_removed += 1
                    removed_names.append("%s%s" % (pick, "" if pick not in blankable else " (may be blank)"))
                    if res3["abort"] == "" and res3.get("solved"):
                        rep.violation("removed:%d:solved although an input that the complete run read was taken away" % sc["year"],
                                      "%s was read by the complete run (%s); without it the run still ends as solved" % (pick, sc["sid"]),
                                      {"kind": "scenario", "year": sc["year"], "request": sc["request"], "given": g3})
                    cases.append((dict(sc, given=g3, sid=sc["sid"] + "/without:" + pick), g3, res3))
        for n, (sc, given_n, res_n) in enumerate(cases):
            path = os.path.join(work, "in_%d.habutax" % n)
            conf = runs.make_config({k2: v.replace("%", "%%") for k2, v in given_n.items()})
            with open(path, "w") as f:
                conf.write(f)
            kb = cli_driver.Keyboard({}, default=None)
            r = cli_driver.run_solve(sc["year"], sc["request"], path, kb, solution_path=os.path.join(work, "sol_%d" % n), prompt=False, writeback=False)
            out = r["stdout"]
            # wording-independent reading of the report: which of the names the solver blames occur in the output at all,
            # and whether the output speaks of success and/or of failure (any phrasing).  The solution goes to a file, so
            # stdout holds the report only.
            tokens = set(re.findall(r"[\w:\-]+\.[\w\-]+", out))
            res = res_n
            low = out.lower()
            says_ok = bool(re.search(r"success|solved!", low)) and not re.search(r"fail|not solved|unable to solve|could not", low.split("because")[0])
            says_bad = bool(re.search(r"fail|not solved|unable to solve|could not solve", low))
            oid = len(obs) + 1
            obs.append({"oid": oid, "abort": res["abort"], "solved": bool(res.get("solved")), "unimpl": res.get("unimpl", []),
                        "missing": sorted(res.get("missing", {})), "blocked": sorted(res.get("blocked", {})), "exc": r["exc"],
                        "said_solved": says_ok, "said_failed": says_bad,
                        "p_unimpl": [x for x in res.get("unimpl", []) if x in tokens],
                        "p_missing": [x for x in sorted(res.get("missing", {})) if x in tokens],
                        "p_blocked": [x for x in sorted(res.get("blocked", {})) if x in tokens]})
            meta[oid] = sc
        rows, res_t = content_checks.run_oracle("CliReport", "HV_CLI_FILE", {"obs": obs}, work, "CLI")
    finally:
        common.rmwork(work)
    if res_t.distinct != len(obs) + 1:
        raise common.MachineryError("CliReport.tla judged %d of %d" % (res_t.distinct - 1, len(obs)))
    for row in rows:
        sc = meta[int(row[0])]
        rep.violation("cli:%d:%s" % (sc["year"], row[1][:70]), "%s (%s)" % (row[1], sc["sid"]), {"kind": "scenario", "year": sc["year"], "request": sc["request"], "given": sc["given"]})
    cov["cli_reports_checked"] = len(obs)
    cov["runs_with_one_read_input_taken_away"] = n_removed
    cov["inputs_taken_away"] = sorted(set(removed_names))[:40]


def fixed_point_check(scs, rep, cov, tier, work):
    """every stored line of every explored return (solved or not) evaluated once more on the final state (FixedPoint.tla)"""
    import re
    from habutax.form import FormAccessor
    facts, where = [], []
    for rid, sc in enumerate(scs):
        solver = sc.get("solver")
        if solver is None or sc["res"]["abort"]:
            continue
        for name, stored in list(solver._v.values.items()):
            field = solver._field_map.get(name)
            if field is None:
                continue
            try:
                again = field.value(FormAccessor(solver._i, field.form()), FormAccessor(solver._v, field.form()))
                a_txt = "%s:%r" % (type(again).__name__, again)
            except BaseException as e:      # noqa
                a_txt = "raises:" + type(e).__name__
            facts.append({"rid": rid, "line": name, "stored": "%s:%r" % (type(stored).__name__, stored), "again": a_txt})
            where.append(sc)
    if not facts:
        cov["lines_re_evaluated_on_the_final_state"] = 0
        return
    path = os.path.join(work, "fp.json")
    json.dump({"lines": facts}, open(path, "w"))
    cfgp = os.path.join(work, "fp.cfg")
    open(cfgp, "w").write("SPECIFICATION Spec\nCHECK_DEADLOCK FALSE\n")
    res = common.run_tlc(os.path.join(common.SPEC, "FixedPoint.tla"), cfgp, cwd=work, workers=1, env={"HV_FP_FILE": path}, timeout=1800, heap="6g")
    if res.rc != 0 or res.distinct != len(facts) + 1:
        raise common.MachineryError("FixedPoint.tla failed (rc=%s)\n%s" % (res.rc, res.error_excerpt(30)))
    for m in re.finditer(r'^"FP\|(\d+)\|"$', res.out, re.M):
        x, sc = facts[int(m.group(1)) - 1], where[int(m.group(1)) - 1]
        rep.violation("fixed-point:%d:%s" % (sc["year"], re.sub(r":[^.]*\.", ".", x["line"])),
                      "%s holds %s in return %s, but its definition now yields %s" % (x["line"], x["stored"], sc["sid"], x["again"]),
                      {"kind": "scenario", "year": sc["year"], "request": sc["request"], "given": sc["given"]})
    cov["lines_re_evaluated_on_the_final_state"] = len(facts)


def cli_request_check(scs, rep, cov, tier):
    """C04 at the command line: `habutax solve --form F ...` (through the argument parser) writes the solution of exactly the
    requested forms -- the same lines as a solve of that request in the library."""
    import cli_driver
    import habutax.forms as F
    n = 0
    work = common.mkwork()
    try:
        for sc in [s for s in scs if not s["res"]["abort"]][: (4 if tier == "quick" else 40)]:
            payer = sorted(k.split(".")[0] for k in sc["given"] if k.startswith("w-2:"))[:1]
            for request in ([payer[0]] if payer else []), list(sc["request"]):
                if not request:
                    continue
                path = os.path.join(work, "in_%d.habutax" % n)
                conf = runs.make_config({k2: v.replace("%", "%%") for k2, v in sc["given"].items()})
                with open(path, "w") as f:
                    conf.write(f)
                sol = os.path.join(work, "sol_%d" % n)
                argv = ["solve", "--year", str(sc["year"])] + [x for r in request for x in ("--form", r)] + ["--solution", sol, path]
                r = cli_driver.run_main(argv)
                n += 1
                _t, res2, _s = runs.run_traced(F.available_forms[sc["year"]], runs.make_config({k2: v.replace("%", "%%") for k2, v in sc["given"].items()}),
                                               request, (), user=None, mode="real", snap="none", max_events=30000)
                if res2["abort"]:
                    if not r["exc"]:
                        rep.violation("cli-request:%d:the command ends normally where the library solve aborts" % sc["year"], str(request),
                                      {"kind": "scenario", "year": sc["year"], "request": request, "given": sc["given"]})
                    continue
                ok, got = cli_driver.file_map(sol) if os.path.exists(sol) else (False, {})
                got = {k2: v for k2, v in got.items() if not k2.startswith("habutax.")}
                want = set(res2["values"])
                if r["exc"] or not ok or set(got) != want:
                    extra, missing = sorted(set(got) - want)[:5], sorted(want - set(got))[:5]
                    rep.violation("cli-request:%d:the command's solution is not that of the requested forms" % sc["year"],
                                  "request %s: exception %r, lines only in the command's solution %s, lines missing from it %s" % (request, r["exc"], extra, missing),
                                  {"kind": "scenario", "year": sc["year"], "request": request, "given": sc["given"]})
    finally:
        common.rmwork(work)
    cov["cli_requests_through_the_argument_parser"] = n


def run(pid, tier, rep, cov, owner_of):
    sd = common.seed()
    work = common.mkwork()
    try:
        scs = explore(tier, sd)
        traces = []
        for sc in scs:
            traces.append(sc["trace"])
            for (_l, t2, _r) in sc["variants"]:
                traces.append(t2)
        rt = repo_test_traces()
        # No listed property fixes the ORDER of attempts (C05 says the result does not depend on it), so a trace is judged
        # with any order allowed.  Whether the default order is the documented natural one is recorded, never alarmed on.
        natural = [dict(t, det=True, tid=t["tid"] + 50000) for t in rt["traces"]] if pid == "C06" else []
        for t in rt["traces"]:
            t["det"] = False
        traces += rt["traces"]
        verdicts, st, tn = runs.validate_parallel(traces + natural, work)
        if natural:
            cov["repo_test_traces_in_documented_natural_order"] = sum(1 for t in natural if not verdicts[t["tid"]][2])
            cov["repo_test_traces_in_another_order"] = sum(1 for t in natural if "schedule allows" in verdicts[t["tid"]][2])
        rejected = 0
        for tr in traces:
            consumed, total, err = verdicts[tr["tid"]]
            if err:
                rejected += 1
                if owner_of(err) == pid:
                    m = tr.get("meta", {})
                    locus = "real:%s:%s" % (m.get("test") or ("%s %s" % (m.get("year"), m.get("sid", m.get("request")))), err[:70])
                    rep.violation(locus, "real execution rejected by SolverTrace.tla at event %d/%d: %s" % (consumed, total, err),
                                  {"kind": "real-run", "meta": m})
        ngroups = 0
        if pid in ("C05", "C13"):
            for sc in scs:
                base = sc["res"]
                for (label, t2, r2) in sc["variants"]:
                    ngroups += 1
                    a = base if not base["abort"] else {"abort": "some"}
                    b = r2 if not r2["abort"] else {"abort": "some"}
                    if a != b:
                        diff = [k for k in set(a) | set(b) if a.get(k) != b.get(k)]
                        rep.violation("real:%s:%s result differs from the prompted run (%s)" % (sc["sid"], label, ",".join(sorted(diff))),
                                      {"prompted": {k: a.get(k) for k in diff}, "file": {k: b.get(k) for k in diff}},
                                      {"kind": "real-run-pair", "year": sc["year"], "request": sc["request"], "given": sc["given"], "label": label})
                    if pid == "C13":
                        nasks = sum(1 for e in t2["events"] if e["ev"] == "ask")
                        if nasks:
                            rep.violation("real:%s:re-run on the written-back answers asks again" % sc["sid"], "%d prompts" % nasks,
                                          {"kind": "real-run-pair", "year": sc["year"], "given": sc["given"]})
        if pid == "C01":
            cli_report_check(scs, rep, cov, tier)
        if pid == "C04":
            cli_request_check(scs, rep, cov, tier)
        if pid == "C03":
            fixed_point_check(scs, rep, cov, tier, work)
        cov["real_form_traces_validated"] = len(traces) - len(rt["traces"])
        cov["repo_test_traces_validated"] = len(rt["traces"])
        cov["real_trace_events"] = sum(len(t["events"]) for t in traces)
        cov["real_traces_rejected_total"] = rejected
        cov["real_solved"] = sum(1 for s in scs if s["res"].get("solved"))
        cov["real_failed"] = sum(1 for s in scs if not s["res"].get("solved") and not s["res"]["abort"])
        cov["real_aborted"] = sum(1 for s in scs if s["res"]["abort"])
        cov["real_pairs_compared"] = ngroups
        cov["traces_validated_against_impl"] = cov.get("traces_validated_against_impl", 0) + len(traces)
    finally:
        common.rmwork(work)
