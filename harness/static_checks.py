"""C10 (every name resolves) and C17 (catalogue consistency): facts from the current tree, judged by TLC."""
import json
import os
import re

import common
import natsort
import pathexplore


def catalogue_record(cat, form_instances, extra_names):
    base, lines, req, inps, form_of = {}, {}, {}, {}, {}
    for f in sorted(form_instances):
        b = f.split(":")[0]
        base[f] = b
        if b in cat.classes:
            try:
                obj = cat.form(f)
            except Exception:      # noqa
                continue
            lines[f] = sorted(x.name() for x in obj.fields())
            req[f] = [x.name() for x in obj.required_fields()]
            inps[f] = sorted(x.name() for x in obj.inputs())
            for n in lines[f] + inps[f]:
                form_of[n] = f
    for n in extra_names:
        if n.count(".") == 1:
            form_of.setdefault(n, n.split(".")[0])
    return {"known": sorted(cat.classes), "base": base, "formOf": form_of, "lines": lines, "req": req, "inps": inps,
            "rank": natsort.ranks(sorted(form_of))}


def c10_facts(year, max_paths):
    recs, cat = pathexplore.explore_year(year, max_paths=max_paths)
    refs, excs, forms = [], [], set()
    names = set()
    npaths = 0
    for r in recs:
        if r.get("line") is None:
            continue
        npaths += r["paths"]
        forms.add(r["form"])
        for (k, name) in sorted(r["refs"]):
            if k == "badkey":
                excs.append({"form": r["form"], "line": r["line"], "cls": "KeyError", "msg": "non-string key " + name})
                continue
            mal = (k in ("in", "ln") and name.count(".") != 1)
            refs.append({"form": r["form"], "line": r["line"], "kind": k, "name": name, "malformed": mal})
            if k == "form":
                forms.add(name)
            elif not mal:
                forms.add(name.split(".")[0])
                names.add(name)
        seen = set()
        for (cls, msg, dec) in r["errors"]:
            if cls == "AssertionError":
                if not (msg.startswith("No threshold named") or msg.startswith("Threshold ")):
                    continue      # infeasible path through a table look-up, not a name
                cls = "ThresholdAssertion"
            if (cls, msg) in seen:
                continue
            seen.add((cls, msg))
            excs.append({"form": r["form"], "line": r["line"], "cls": cls, "msg": msg, "decisions": {k: str(v) for k, v in dec.items()}})
    deps = {}
    for r in recs:
        if r.get("line") is None:
            continue
        deps["%s.%s" % (r["form"], r["line"])] = sorted(x for (k, x) in r["refs"] if k == "ln" and x.count(".") == 1)
    return {"year": year, "cat": catalogue_record(cat, forms, names), "refs": refs, "excs": excs, "deps": deps}, recs, npaths


def c10(tier):
    rep = common.Reporter("C10", tier)
    tot_refs = tot_paths = tot_lines = trunc = 0
    cores = {}
    samples = []
    states = 0
    for year in (2021, 2022, 2023):
        facts, recs, npaths = c10_facts(year, 3000 if tier == "quick" else 40000)
        tot_refs += len(facts["refs"])
        tot_paths += npaths
        tot_lines += sum(1 for r in recs if r.get("line") is not None)
        trunc += sum(1 for r in recs if r.get("truncated"))
        work = common.mkwork()
        try:
            path = os.path.join(work, "facts.json")
            payload = dict(facts)
            payload["excs"] = [{k: v for k, v in e.items() if k != "decisions"} for e in facts["excs"]]
            json.dump(payload, open(path, "w"))
            cfgp = os.path.join(work, "c.cfg")
            open(cfgp, "w").write("SPECIFICATION Spec\nCHECK_DEADLOCK FALSE\n")
            res = common.run_tlc(os.path.join(common.SPEC, "Catalogue.tla"), cfgp, cwd=work, workers=1, env={"HV_FACTS_FILE": path}, timeout=1800)
        finally:
            common.rmwork(work)
        if res.rc != 0 or res.distinct != len(facts["refs"]) + len(facts["excs"]) + 1:
            raise common.MachineryError("Catalogue.tla failed for %d (rc=%s, %d states for %d facts)\n%s" % (year, res.rc, res.distinct, len(facts["refs"]) + len(facts["excs"]), res.error_excerpt(40)))
        states += res.distinct
        mc = re.search(r'^"C10\|core\|0\|(.*)\|"$', res.out, re.M)
        cores[str(year)] = mc.group(1) if mc else "?"
        for m in re.finditer(r'^"C10\|(ref|exc)\|(\d+)\|(.*)\|"$', res.out, re.M):
            kind, idx, msg = m.group(1), int(m.group(2)) - 1, m.group(3)
            if kind == "ref":
                r = facts["refs"][idx]
                fb = r["form"].split(":")[0]
                nm = re.sub(r":\d+\.", ":N.", r["name"])
                rep.violation("ref:%d:%s.%s:%s:%s" % (year, fb, r["line"], r["kind"], nm), "%s -- %s" % (msg, r), {"kind": "reference", "year": year, "ref": r})
            else:
                e = facts["excs"][idx]
                fb = e["form"].split(":")[0]
                rep.violation("exc:%d:%s.%s:%s" % (year, fb, e["line"], e["cls"]), "%s: %s (reached with %s)" % (e["cls"], e["msg"], e.get("decisions")),
                              {"kind": "path-exception", "year": year, "exc": e})
        if not samples and facts["refs"]:
            samples = facts["refs"][:3]
    cov = {"programs": tot_lines, "disagreements_checked": tot_refs, "samples": samples,
           "line_definitions": tot_lines, "paths_executed": tot_paths, "references_resolved": tot_refs, "lines_with_truncated_path_enumeration": trunc,
           "states": states, "may_dependency_cycle_core": cores,
           "explanation": "every line definition of every form x allowed instance of the three years is force-executed along its syntactic paths; "
                          "TLC runs the solver's resolution protocol (SolverCore AddForm/ApplyFinal/LoadSpec) on every reference found"}
    return rep, "translation_validation", cov, ["paths are enumerated by forcing branch outcomes; loops take 0-2 iterations; lines with more than the path cap are enumerated depth-first up to the cap",
                                                  "assertion failures inside table look-ups on infeasible forced paths are ignored (only name-related exceptions count)"]


# ---------------------------------------------------------------------------------------------
# C17

def _capture(fn, args):
    import contextlib
    import io
    buf = io.StringIO()
    code = 0
    with contextlib.redirect_stdout(buf):
        try:
            fn(args)
        except SystemExit as e:
            code = e.code or 0
    return buf.getvalue(), code


def c17_facts():
    import argparse
    import configparser
    import habutax
    import habutax.forms as F
    import habutax.enum as E
    from habutax.form import InputForm, Jurisdiction
    forms, tables, names, statuses = [], [], {}, {}
    for year in sorted(F.available_forms):
        en = E.filing_status_2021 if year == 2021 else E.filing_status
        smembers = list(en.__members__.values())
        statuses[str(year)] = [m.name for m in smembers]
        names[str(year)] = [c.form_name for c in F.available_forms[year]]
        lf_out, _ = _capture(habutax.list_forms, argparse.Namespace(year=year, contains=None, jurisdiction=None))
        listed_names = set()
        for line in lf_out.splitlines():
            parts = [p.strip() for p in line.split("|")]
            if len(parts) >= 3:
                listed_names.add(parts[0])
        for cls in F.available_forms[year]:
            insts = list(getattr(cls, "valid_instances", [])) or [None]
            if not hasattr(cls, "valid_instances"):
                try:
                    if issubclass(cls, InputForm):
                        insts = ["0", "1"]
                except TypeError:
                    pass
            # every allowed instance alive at the same time, as in a solve that uses them all: each must keep its own lines
            together = {}
            for inst in insts:
                try:
                    together[inst] = cls(instance=inst)
                except Exception:      # noqa
                    pass
            foreign = {inst: sorted(set(x.name() for x in list(g.fields()) + list(g.inputs()) if x.name() != "%s.%s" % (g.name(), x.base_name())))
                       for inst, g in together.items()}
            for inst in insts:
                rec = {"year": year, "name": cls.form_name if inst is None else "%s:%s" % (cls.form_name, inst), "instance": inst or "", "foreign": [],
                       "inst_ok": True, "tax_year": getattr(cls, "tax_year", -1), "meta": [], "fileable": False, "inputs": [], "lines": [],
                       "badcase": [], "listed_section": "", "listed": [], "list_ok": False, "in_list_forms": cls.form_name in listed_names}
                for a in ("description", "long_description", "sequence_no"):
                    if isinstance(getattr(cls, a, None), (str, int)) and getattr(cls, a, None) != "":
                        rec["meta"].append(a)
                if isinstance(getattr(cls, "jurisdiction", None), Jurisdiction):
                    rec["meta"].append("jurisdiction")
                try:
                    f = cls(instance=inst)
                except Exception as e:      # noqa
                    rec["inst_ok"] = False
                    forms.append(rec)
                    continue
                rec["inputs"] = [x.base_name() for x in f.inputs()]
                rec["lines"] = [x.base_name() for x in f.fields()]
                rec["foreign"] = foreign.get(inst, [])
                rec["badcase"] = sorted(set(n for n in rec["inputs"] + rec["lines"] if n != n.lower() or "." in n))
                rec["fileable"] = can_need_filing(f)
                out, code = _capture(habutax.list_form_inputs, argparse.Namespace(year=year, form=rec["name"]))
                text = "\n".join((l[1:] if (l.startswith("#") and re.match(r"^#[^ #].* =\s*$", l)) else l) for l in out.splitlines())
                cp = configparser.ConfigParser()
                try:
                    cp.read_string(text)
                    secs = cp.sections()
                    rec["list_ok"] = code == 0 and len(secs) == 1
                    if secs:
                        rec["listed_section"] = secs[0]
                        rec["listed"] = list(cp[secs[0]].keys())
                except configparser.Error:
                    rec["list_ok"] = False
                forms.append(rec)
                if inst not in (None, insts[0]):
                    continue
                for tname, t in getattr(f, "_thresholds", {}).items():
                    if not isinstance(t, dict):
                        continue
                    keyset = set()
                    for k in t:
                        keyset.update(k if isinstance(k, tuple) else (k,))
                    if not all(k in smembers for k in keyset):
                        continue          # not keyed by filing status
                    rows = [{"keys": [m.name for m in (k if isinstance(k, tuple) else (k,))], "val": repr(v)} for k, v in t.items()]
                    got = {}
                    for m in smembers:
                        try:
                            got[m.name] = repr(f.threshold(tname, m))
                        except AssertionError:
                            got[m.name] = "ERR"
                    tables.append({"year": year, "form": rec["name"], "name": tname, "rows": rows, "got": got})
    return {"forms": forms, "tables": tables, "names": names, "statuses": statuses}


def can_need_filing(f):
    """does needs_filing() return true for some values?"""
    class V(dict):
        def __init__(self, val):
            self.val = val

        def __getitem__(self, k):
            return self.val

        def __contains__(self, k):
            return True

        def get(self, k, d=None):
            return self.val
    for val in (True, 1.0, 1000.0, False, 0.0, "x"):
        try:
            if f.needs_filing(V(val)):
                return True
        except NotImplementedError:
            return True       # the base class: no decision at all
        except Exception:     # noqa
            continue
    # the decision may compare two lines with each other: every assignment of a few values to the keys it reads
    import itertools

    class W(dict):
        def __init__(self, asg, seen):
            self.asg, self.seen = asg, seen

        def __getitem__(self, k):
            if k not in self.seen:
                self.seen.append(k)
            return self.asg.get(k, 0.0)

        def __contains__(self, k):
            return True

        def get(self, k, d=None):
            return self[k]
    seen = []
    try:
        f.needs_filing(W({}, seen))
    except Exception:     # noqa
        pass
    for _round in range(3):                      # keys read only on some branches show up in later rounds
        keys = list(seen)[:5]
        for combo in itertools.product((0.0, 1000.0, True, False), repeat=len(keys)):
            try:
                if f.needs_filing(W(dict(zip(keys, combo)), seen)):
                    return True
            except Exception:     # noqa
                continue
        if len(seen) == len(keys):
            break
    return False


def c17(tier):
    rep = common.Reporter("C17", tier)
    facts = c17_facts()
    work = common.mkwork()
    try:
        path = os.path.join(work, "facts.json")
        json.dump(facts, open(path, "w"))
        cfgp = os.path.join(work, "c.cfg")
        open(cfgp, "w").write("SPECIFICATION Spec\nCHECK_DEADLOCK FALSE\n")
        res = common.run_tlc(os.path.join(common.SPEC, "CatalogueFacts.tla"), cfgp, cwd=work, workers=1, env={"HV_FACTS_FILE": path}, timeout=900)
    finally:
        common.rmwork(work)
    n = len(facts["forms"]) + len(facts["tables"]) + 1
    if res.rc != 0 or res.distinct != n + 1:
        raise common.MachineryError("CatalogueFacts.tla failed (rc=%s, %d states for %d facts)\n%s" % (res.rc, res.distinct, n, res.error_excerpt(40)))
    for m in re.finditer(r'^"C17\|(form|table|names)\|([^|]*)\|(.*)\|"$', res.out, re.M):
        kind, idx, msg = m.group(1), m.group(2), m.group(3)
        if kind == "form":
            f = facts["forms"][int(idx) - 1]
            rep.violation("form:%d:%s:%s" % (f["year"], f["name"], msg[:60]), msg, {"kind": "catalogue-form", "fact": f})
        elif kind == "table":
            t = facts["tables"][int(idx) - 1]
            rep.violation("table:%d:%s.%s:%s" % (t["year"], t["form"], t["name"], msg[:40]), msg, {"kind": "threshold-table", "fact": t})
        else:
            rep.violation("names:%s" % idx, msg, {"kind": "catalogue", "year": idx})
    cov = {"programs": len(facts["forms"]), "disagreements_checked": n, "samples": [facts["forms"][0], facts["tables"][0] if facts["tables"] else {}],
           "form_instances": len(facts["forms"]), "status_tables": len(facts["tables"]), "table_status_pairs": 5 * len(facts["tables"]),
           "states": res.distinct, "exhaustive": True,
           "explanation": "every (year, form class, allowed instance) is introspected and listed through the real list-forms / list-form-inputs; every status-keyed threshold table is looked up through the real Form.threshold() for all five statuses; TLC evaluates CatalogueFacts.tla on the facts"}
    return rep, "translation_validation", cov, ["input-only forms (W-2, 1099, 1098) are instantiated as copies 0 and 1", "inline if/elif status chains (2021, 2022) are covered by C08's echo probes, not here"]
