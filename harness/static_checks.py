"""C10 (every name resolves) and C17 (catalogue consistency): facts from the current tree, judged by TLC."""
import json
import os
import re

import common
import natsort
import pathexplore


def catalogue_record(cat, form_instances, extra_names):
    base, lines, req, inps, form_of = {}, {}, {}, {}, {}
    for f in sorted(form_instances):
        b = f.split(":")[0]
        base[f] = b
        if b in cat.classes:
            try:
                obj = cat.form(f)
            except Exception:      # noqa
                continue
            lines[f] = sorted(x.name() for x in obj.fields())
            req[f] = [x.name() for x in obj.required_fields()]
            inps[f] = sorted(x.name() for x in obj.inputs())
            for n in lines[f] + inps[f]:
                form_of[n] = f
    for n in extra_names:
        if n.count(".") == 1:
            form_of.setdefault(n, n.split(".")[0])
    return {"known": sorted(cat.classes), "base": base, "formOf": form_of, "lines": lines, "req": req, "inps": inps,
            "rank": natsort.ranks(sorted(form_of))}


def c10_facts(year, max_paths):
    recs, cat = pathexplore.explore_year(year, max_paths=max_paths)
    refs, excs, forms = [], [], set()
    names = set()
    npaths = 0
    for r in recs:
        if r.get("line") is None:
            continue
        npaths += r["paths"]
        forms.add(r["form"])
        for (k, name) in sorted(r["refs"]):
            if k == "badkey":
                excs.append({"form": r["form"], "line": r["line"], "cls": "KeyError", "msg": "non-string key " + name})
                continue
            mal = (k in ("in", "ln") and name.count(".") != 1)
            refs.append({"form": r["form"], "line": r["line"], "kind": k, "name": name, "malformed": mal})
            if k == "form":
                forms.add(name)
            elif not mal:
                forms.add(name.split(".")[0])
                names.add(name)
        seen = set()
        for (cls, msg, dec) in r["errors"]:
            if cls == "AssertionError":
                if not (msg.startswith("No threshold named") or msg.startswith("Threshold ")):
                    continue      # infeasible path through a table look-up, not a name
                cls = "ThresholdAssertion"
            if (cls, msg) in seen:
                continue
            seen.add((cls, msg))
            excs.append({"form": r["form"], "line": r["line"], "cls": cls, "msg": msg, "decisions": {k: str(v) for k, v in dec.items()}})
    return {"year": year, "cat": catalogue_record(cat, forms, names), "refs": refs, "excs": excs}, recs, npaths


def c10(tier):
    rep = common.Reporter("C10", tier)
    tot_refs = tot_paths = tot_lines = trunc = 0
    samples = []
    states = 0
    for year in (2021, 2022, 2023):
        facts, recs, npaths = c10_facts(year, 3000 if tier == "quick" else 40000)
        tot_refs += len(facts["refs"])
        tot_paths += npaths
        tot_lines += sum(1 for r in recs if r.get("line") is not None)
        trunc += sum(1 for r in recs if r.get("truncated"))
        work = common.mkwork()
        try:
            path = os.path.join(work, "facts.json")
            payload = dict(facts)
            payload["excs"] = [{k: v for k, v in e.items() if k != "decisions"} for e in facts["excs"]]
            json.dump(payload, open(path, "w"))
            cfgp = os.path.join(work, "c.cfg")
            open(cfgp, "w").write("SPECIFICATION Spec\nCHECK_DEADLOCK FALSE\n")
            res = common.run_tlc(os.path.join(common.SPEC, "Catalogue.tla"), cfgp, cwd=work, workers=1, env={"HV_FACTS_FILE": path}, timeout=1800)
        finally:
            common.rmwork(work)
        if res.rc != 0 or res.distinct != len(facts["refs"]) + len(facts["excs"]) + 1:
            raise common.MachineryError("Catalogue.tla failed for %d (rc=%s, %d states for %d facts)\n%s" % (year, res.rc, res.distinct, len(facts["refs"]) + len(facts["excs"]), res.error_excerpt(40)))
        states += res.distinct
        for m in re.finditer(r'^"C10\|(ref|exc)\|(\d+)\|(.*)\|"$', res.out, re.M):
            kind, idx, msg = m.group(1), int(m.group(2)) - 1, m.group(3)
            if kind == "ref":
                r = facts["refs"][idx]
                fb = r["form"].split(":")[0]
                nm = re.sub(r":\d+\.", ":N.", r["name"])
                rep.violation("ref:%d:%s.%s:%s:%s" % (year, fb, r["line"], r["kind"], nm), "%s -- %s" % (msg, r), {"kind": "reference", "year": year, "ref": r})
            else:
                e = facts["excs"][idx]
                fb = e["form"].split(":")[0]
                rep.violation("exc:%d:%s.%s:%s" % (year, fb, e["line"], e["cls"]), "%s: %s (reached with %s)" % (e["cls"], e["msg"], e.get("decisions")),
                              {"kind": "path-exception", "year": year, "exc": e})
        if not samples and facts["refs"]:
            samples = facts["refs"][:3]
    cov = {"programs": tot_lines, "disagreements_checked": tot_refs, "samples": samples,
           "line_definitions": tot_lines, "paths_executed": tot_paths, "references_resolved": tot_refs, "lines_with_truncated_path_enumeration": trunc,
           "states": states,
           "explanation": "every line definition of every form x allowed instance of the three years is force-executed along its syntactic paths; "
                          "TLC runs the solver's resolution protocol (SolverCore AddForm/ApplyFinal/LoadSpec) on every reference found"}
    return rep, "translation_validation", cov, ["paths are enumerated by forcing branch outcomes; loops take 0-2 iterations; lines with more than the path cap are enumerated depth-first up to the cap",
                                                  "assertion failures inside table look-ups on infeasible forced paths are ignored (only name-related exceptions count)"]
