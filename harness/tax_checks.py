"""C07: figure_tax() against TaxSchedule.tla (Revenue Procedure brackets)."""
import importlib
import json
import os
import random
import re

import common

B = 1000000
STAT = {1: "Single", 2: "MarriedFilingJointly", 3: "MarriedFilingSeparately", 4: "HeadOfHousehold", 5: "QSS"}


def limbs(n):
    out = []
    while n > 0:
        out.append(n % B)
        n //= B
    return out or [0]


def status_member(year, s):
    import habutax.enum as E
    en = E.filing_status_2021 if year == 2021 else E.filing_status
    name = STAT[s]
    if name == "QSS":
        name = "QualifyingWidowWidower" if year == 2021 else "QualifyingSurvivingSpouse"
    return en[name]


def row_starts():
    xs = [0, 500, 1500] + [2500 * j for j in range(1, 120)] + [5000 * j for j in range(60, 2000)]
    return xs


def ends_from_code(year):
    """bracket boundaries >= 100000 as the CODE's worksheet has them (only used to place sample points)"""
    m = importlib.import_module("habutax.forms.ty%d.f1040_figure_tax" % year)
    pts = set()
    for tbl in m.TAX_WORKSHEET_VALUES:
        for row in tbl:
            pts.add(int(row[0]))
    return sorted(pts)


# statutory boundaries >= 100000 (sample points only; the oracle is TaxSchedule.tla)
BOUNDARIES = [100000, 164900, 164925, 170050, 172750, 178150, 182100, 190750, 209400, 209425, 215950, 231250, 314150, 323925,
              329850, 340100, 346875, 364200, 418850, 431900, 462500, 523600, 539900, 578100, 578125, 628300, 647850, 693750]


def c07(tier):
    rep = common.Reporter("C07", tier)
    sd = common.seed()
    rng = random.Random(4242 + sd)
    small, big = [], []
    nundef = 0
    for year in (2021, 2022, 2023):
        m = importlib.import_module("habutax.forms.ty%d.f1040_figure_tax" % year)
        pts_big = sorted(set(BOUNDARIES) | set(ends_from_code(year)))
        for s in (1, 2, 3, 4, 5):
            mem = status_member(year, s)
            xs = set()
            if tier == "thorough":
                xs.update(range(0, 10000000, 100))                 # every whole dollar
            else:
                xs.update(range(0, 10000000, 1300))                 # every 13th dollar
                xs.update(rng.randrange(0, 10000000) for _ in range(1500))
            for b in row_starts():                                  # every row boundary and its one-cent neighbours, and the midpoint
                xs.update((b, b + 1, max(0, b - 1)))
            xs.add(9999999)
            for x in sorted(xs):
                if x >= 10000000:
                    continue
                try:
                    t = m.figure_tax(x / 100.0, mem)
                    tc = int(round(t * 100))
                except AssertionError:
                    tc = -1
                    nundef += 1
                small.append({"y": year, "s": s, "x": x, "t": tc})
            xb = set()
            for b in pts_big:
                xb.update((b * 100 - 1, b * 100, b * 100 + 1))
            n_rand = 150 if tier == "quick" else 4000
            for _ in range(n_rand):
                e = rng.uniform(7.0, 14.0)                          # 10^7 .. 10^14 cents = $100k .. $1e12
                xb.add(int(10 ** e))
            xb.update((10000000, 10000001, 10 ** 14 - 1, 10 ** 14))
            for x in sorted(xb):
                if x < 10000000 or x > 10 ** 14:
                    continue
                try:
                    t = m.figure_tax(x / 100.0, mem)
                    big.append({"y": year, "s": s, "x": limbs(x), "t": limbs(int(round(t * 100))), "ok": True, "tol": 100})
                except AssertionError:
                    big.append({"y": year, "s": s, "x": limbs(x), "t": [0], "ok": False, "tol": 100})
    work = common.mkwork()
    try:
        path = os.path.join(work, "tax.json")
        json.dump({"small": small, "big": big}, open(path, "w"))
        cfgp = os.path.join(work, "t.cfg")
        open(cfgp, "w").write("SPECIFICATION Spec\nCHECK_DEADLOCK FALSE\n")
        res = common.run_tlc(os.path.join(common.SPEC, "TaxSchedule.tla"), cfgp, cwd=work, workers=1, env={"HV_TAX_FILE": path}, timeout=3400, heap="8g")
    finally:
        common.rmwork(work)
    if res.rc != 0 or res.distinct != len(small) + len(big) + 1:
        raise common.MachineryError("TaxSchedule.tla failed (rc=%s, %d states for %d observations)\n%s" % (res.rc, res.distinct, len(small) + len(big), res.error_excerpt(40)))
    # group failures into maximal runs per (year, column) so that a hole in a table is one locus
    fails = {}
    for mm in re.finditer(r'^"C07\|(small|big)\|(\d+)\|(.*)\|"$', res.out, re.M):
        kind, idx, msg = mm.group(1), int(mm.group(2)) - 1, mm.group(3)
        if kind == "small":
            o = small[idx]
            x = o["x"]
        else:
            o = big[idx]
            x = sum(v * B ** k for k, v in enumerate(o["x"]))
        key = (o["y"], o["s"], msg.split(":")[0])
        fails.setdefault(key, []).append((x, msg))
    for (y, s, m0), lst in sorted(fails.items()):
        xs = sorted(x for x, _ in lst)
        lo, hi = xs[0], xs[-1]
        # locus: year, status, kind of failure, dollar range
        rep.violation("tax:%d:%s:%s:[%d,%d]" % (y, STAT[s], m0, lo // 100, hi // 100 + (1 if hi % 100 else 0)),
                      "%d sampled incomes between $%.2f and $%.2f: %s" % (len(xs), lo / 100.0, hi / 100.0, lst[0][1]),
                      {"kind": "figure_tax", "year": y, "status": STAT[s], "income_cents": xs[:50]})
    cov = {"evaluations": len(small) + len(big), "distinct_nontrivial": len(small) + len(big),
           "rule": "figure_tax(income, status) for 3 years x 5 statuses: %s whole-dollar incomes below $100,000, every table-row boundary and its one-cent neighbours; every bracket boundary >= $100,000 and its one-cent neighbours, $100,000 +- 1 cent, 1e12, and seeded log-uniform incomes up to $1e12" % ("all" if tier == "thorough" else "every 13th and 1500 random"),
           "samples": small[1000:1003] + big[:2], "table_observations": len(small), "worksheet_observations": len(big), "undefined_results": nundef,
           "states": res.distinct, "exhaustive": tier == "thorough",
           "explanation": "TLC evaluates TaxSchedule.tla (Rev. Proc. brackets, IRS table-row geometry, midpoint rule, exact formula with limb arithmetic) on every observation; monotonicity, the slope bound and QSS = MFJ are consequences of equality with the schedule and are asserted on the oracle itself (ASSUME)"}
    return rep, "exploration", cov, ["oracle brackets transcribed from Rev. Proc. 2020-45, 2021-45, 2022-38 (TaxSchedule.tla); worksheet results compared at +-1 cent"]
