#!/bin/sh
# runs every quick check (4 at a time) with VERIF_SEED=$1 (default 0); evidence/replays go to a scratch directory unless KEEP=1
SEED=${1:-0}
HERE=$(cd "$(dirname "$0")/.." && pwd)
TMP=$(mktemp -d /tmp/hv_all_XXXX)
if [ -z "$KEEP" ]; then export HV_EVID_DIR=$TMP/ev HV_REPLAY_DIR=$TMP/rp; fi
export VERIF_SEED=$SEED
for p in C01 C02 C03 C04 C05 C06 C07 C08 C09 C10 C11 C12 C13 C14 C15 C16 C17 C18 C19 C20; do echo $p; done | xargs -P 4 -I{} sh -c "$HERE/check {} --tier quick > $TMP/{}.log 2>&1; echo {} rc=\$? \$(tail -1 $TMP/{}.log | cut -c1-120)"
[ -z "$KEEP" ] && rm -rf $TMP
