"""Driving the real solver on generated programs / real forms under a tracer, and validating
batches of traces with TLC (SolverTrace.tla)."""
import configparser
import json
import os
import random
import re
import sys

import common
import progs as progs_mod
from tracer import Tracer, TracerBroken


def make_config(cfg0):
    """cfg0: {"form.input": "text"} -> ConfigParser"""
    conf = configparser.ConfigParser()
    for name, text in cfg0.items():
        sec, opt = name.split(".", 1)
        if not conf.has_section(sec):
            conf.add_section(sec)
        conf.set(sec, opt, text)
    return conf


class ScriptedUser(object):
    """answers: {"form.input": "0" | "1" | "REFUSE" | "EOF" | "BAD" | text}; default for others"""

    def __init__(self, answers, default="REFUSE", at=None):
        """at: {k: "REFUSE"|"EOF"|"BAD"} overrides the answer to the k-th prompt (1-based)"""
        self.answers = answers
        self.default = default
        self.asked = []
        self.at = at or {}

    def __call__(self, missing, needed_by):
        name = missing.name()
        self.asked.append(name)
        a = self.answers.get(name, self.default)
        if len(self.asked) in self.at:
            a = self.at[len(self.asked)]
        if a == "REFUSE":
            return (None, False)
        if a == "EOF":
            raise EOFError()
        if a == "BAD":
            return ("not-a-number", True)
        return (a, True)


def set_chooser(fn):
    import habutax.solver as S
    if not hasattr(S, "_verif_chooser"):
        raise common.MachineryError("scheduling hook not active: HABUTAX_VERIF=1 must be set before habutax is imported")
    S._verif_chooser = fn


def random_chooser(rng):
    def ch(site, items):
        items = list(items)
        rng.shuffle(items)
        return items
    return ch


def reverse_chooser(site, items):
    return list(reversed(items))


def run_traced(form_list, conf, request, field_names=(), user=None, chooser=None, mode="real",
               snap="full", tid=0, body=None, meta=None, preseed=None, max_events=200000, strict=False, names=(), store=None):
    """one traced solve -> trace dict (events + header) and the result summary"""
    from habutax.inputs import InputStore
    from habutax.solver import Solver
    store = InputStore(conf) if store is None else store
    import tracer as _tracer
    _tracer.BLANK_OK.clear()
    if chooser is not None:
        set_chooser(chooser)
    try:
        with Tracer(mode=mode, snap=snap, max_events=max_events) as tr:
            solver = Solver(store, form_list, prompt=user)
            if preseed:
                preseed(solver)
            tr.attach(solver, form_list)
            tr.names.update(names)          # every name the program can mention belongs in the catalogue header
            overflow = False
            try:
                solved, exc = tr.run_solve(request, field_names)
            except TracerBroken:
                if not tr.overflow:
                    raise
                # the solve exceeded the event budget: a finite, rejected trace instead of a hang (C06)
                overflow = True
                solved, exc = None, RuntimeError("work bound exceeded")
                tr.request, tr.field_names = list(request), list(field_names)
                tr.depth, tr.cur = 0, None
                tr.events = tr.events[:max_events]
                tr.events.append({"ev": "overflow", "sc": tr.events[-1].get("sc") if tr.events else {}})
            trace = tr.trace(tid=tid, det=(chooser is None and strict), body=body, meta=meta)
            trace["overflow"] = overflow
    finally:
        if chooser is not None:
            set_chooser(None)
    res = result_of(solver, solved, exc) if not trace.get("overflow") else {"abort": "overflow"}
    return trace, res, solver


def result_of(solver, solved, exc):
    """canonical, schedule-independent result of one solve (diagnostics as sets)"""
    if exc is not None:
        from tracer import abort_kind
        return {"abort": abort_kind(exc)}
    sol = solver.solution()
    return {"abort": "", "solved": bool(solved),
            "values": {"%s.%s" % (sec, k): sol[sec][k] for sec in sol.sections() for k in sol[sec]},
            "forms": sorted(solver.forms.keys()),
            "unimpl": sorted(set(solver.unimplemented_fields())),
            # diagnostics are compared as SETS: when a form is first discovered through one of its required lines that
            # line is queued twice, so the multiplicity of a waiter (never its presence) depends on the attempt order
            "missing": {k: sorted(set(v)) for k, v in solver.unmet_input_dependencies().items()},
            "blocked": {k: sorted(set(v)) for k, v in solver.unmet_field_dependencies().items()}}


# ---------------------------------------------------------------------------------------------
# TLC batch validation

VERDICT_RE = re.compile(r'^"VERDICT\|(-?\d+)\|(\d+)\|(\d+)\|(.*)\|"$', re.M)


def validate_batch(traces, workdir, name="batch", timeout=1800, heap="6g"):
    """-> {tid: (consumed, total, err)}; raises MachineryError if TLC did not produce all verdicts"""
    path = os.path.join(workdir, name + ".json")
    with open(path, "w") as f:
        json.dump({"traces": [{k: v for k, v in t.items() if k not in ("meta", "overflow")} for t in traces]}, f)
    cfgp = os.path.join(workdir, name + ".cfg")
    with open(cfgp, "w") as f:
        f.write("SPECIFICATION TraceSpec\nCHECK_DEADLOCK FALSE\n")
    res = common.run_tlc(os.path.join(common.SPEC, "SolverTrace.tla"), cfgp, cwd=workdir, workers=1,
                         env={"HV_TRACE_FILE": path}, timeout=timeout, heap=heap)
    verdicts = {}
    for m in VERDICT_RE.finditer(res.out):
        verdicts[int(m.group(1))] = (int(m.group(2)), int(m.group(3)), m.group(4))
    missing = [t["tid"] for t in traces if t["tid"] not in verdicts]
    if missing or res.rc not in (0,):
        raise common.MachineryError("TLC trace validation failed (rc=%s, %d verdicts missing)\n%s" % (res.rc, len(missing), res.error_excerpt(40)))
    return verdicts, res


def validate_parallel(traces, workdir, jobs=None, chunk=None, timeout=1800):
    """split traces over several JVMs"""
    from concurrent.futures import ThreadPoolExecutor
    jobs = jobs or max(1, min(common.NCPU, 16))
    if not traces:
        return {}, 0, 0
    chunk = chunk or max(1, (len(traces) + jobs - 1) // jobs)
    parts = [traces[i:i + chunk] for i in range(0, len(traces), chunk)]
    out, states, trans = {}, 0, 0

    def one(k):
        return validate_batch(parts[k], workdir, name="batch%03d" % k, timeout=timeout)
    with ThreadPoolExecutor(max_workers=jobs) as ex:
        for v, res in ex.map(one, range(len(parts))):
            out.update(v)
            states += res.distinct
            trans += res.generated
    return out, states, trans
