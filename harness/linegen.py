"""C02: turns the line instructions printed in the bundled IRS templates (XFA accessibility text) into equation
records for Lines.tla.  The matching of a template field to a line of the program is by the LINE NUMBER IN THE
LABEL, not through the program's pdf mappings (C18 checks those separately).

Equation record: {"form", "line", "op", "args": [line names of the same form], "floor": bool, "num", "den", "k", "src": "form.line", "text"}
  add   line = sum(args)
  sub   line = args[1] - args[0]            ("Subtract line A from line B"), floor: if zero or less enter 0
  mul   line = args[0] * num / den          (rate)
  mulk  line = args[0] * k dollars          (args[0] is a count)
  mull  line = args[0] * args[1]            (ratio line, 5 decimal places)
  min / max   line = min/max(args)
  same  line = args[0]
  carry line = src (another form's line); 0 when that form takes no part
"""
import re

import pdfparse

WORD_FORM = {
    "Schedule 1": "1040_s1", "Schedule 2": "1040_s2", "Schedule 3": "1040_s3", "Schedule A": "1040_sa", "Schedule B": "1040_sb",
    "Schedule 8812": "1040_s8812", "Form 8995": "8995", "Form 8959": "8959", "Form 8889": "8889", "Form 8606": "8606",
    "Form 1040": "1040",
}


def numeric_lines(form):
    return [x.base_name() for x in form.fields() if type(x).__name__ in ("FloatField", "IntegerField")]


def expand_list(text, order):
    """'1z, 2b, 3b, and 8' / '1a through 1h' / '11 through 23 and 25' -> line names (None if something does not resolve)"""
    text = text.replace(" and ", ", ").replace(",,", ",")
    out = []
    for part in [p.strip() for p in text.split(",") if p.strip()]:
        m = re.match(r"^(\d{1,2}[a-z]?) through (\d{1,2}[a-z]?)$", part)
        if m:
            a, b = m.group(1), m.group(2)
            if a not in order or b not in order:
                return None
            ia, ib = order.index(a), order.index(b)
            if ib < ia:
                return None
            out += order[ia:ib + 1]
        elif re.match(r"^\d{1,2}[a-z]?$", part):
            out.append(part)
        else:
            return None
    return out


def parse_instruction(label, speak, order):
    """-> equation dict (without form) or None"""
    # the sentence(s) that belong to this label
    m = re.search(r"(?:^|[.?] )(?:Line )?%s\. (.*)$" % re.escape(label), speak, re.I)
    body = m.group(1) if m else speak
    body = re.sub(r"\s+", " ", body)
    floor = bool(re.search(r"If zero or less, enter (?:-?0-?|zero)", body, re.I)) or bool(re.search(r"If line \w+ is more than line \w+, enter (?:-?0-?)", body, re.I))
    m = re.search(r"\b(?:Add|Combine) lines? ([0-9a-z ,]+?(?: and [0-9a-z]+)?)\.", body)
    if m and "column" not in body.split(m.group(0))[0][-40:]:
        args = expand_list(m.group(1).strip(), order)
        if args and len(args) >= 2:
            ceil0 = bool(re.search(r"If greater than zero, enter 0", body))
            return {"op": "add", "args": args, "floor": floor, "cap0": ceil0}
    m = re.search(r"\b[Ss]ubtract line (\d{1,2}[a-z]?) from line (\d{1,2}[a-z]?)", body)
    if m:
        extra = bool(re.search(r"not a multiple of", body))
        if extra:
            return None
        return {"op": "sub", "args": [m.group(1), m.group(2)], "floor": floor}
    m = re.search(r"\bMultiply line (\d{1,2}[a-z]?) by (\d+(?:\.\d+)?) ?%", body)
    if m:
        pct = m.group(2)
        num = int(pct.replace(".", ""))
        den = 100 * (10 ** (len(pct.split(".")[1]) if "." in pct else 0))
        return {"op": "mul", "args": [m.group(1)], "num": num, "den": den}
    m = re.search(r"\bMultiply line (\d{1,2}[a-z]?) by \$([\d,]+)", body)
    if m:
        return {"op": "mulk", "args": [m.group(1)], "k": int(m.group(2).replace(",", ""))}
    m = re.search(r"\bMultiply line (\d{1,2}[a-z]?) by line (\d{1,2}[a-z]?)", body)
    if m:
        return {"op": "mull", "args": [m.group(1), m.group(2)]}
    m = re.search(r"\bEnter the (smaller|larger) of line (\d{1,2}[a-z]?) or line (\d{1,2}[a-z]?)", body)
    if m:
        return {"op": "min" if m.group(1) == "smaller" else "max", "args": [m.group(2), m.group(3)]}
    m = re.search(r"\bEnter the amount from line (\d{1,2}[a-z]?)\.", body)
    if m and "Form" not in body[:m.end()]:
        return {"op": "same", "args": [m.group(1)]}
    m = re.search(r"(?:from|on) (Schedule [0-9A-Z]+|Form \d+)(?: \(Form 1040\))?, line (\d{1,2}[a-z]?)", body)
    if m and m.group(1) in WORD_FORM and m.group(1).startswith("Schedule") and not re.search(r"Enter here and on|enter this amount on|include this amount", body[:m.start() + 5], re.I):
        return {"op": "carry", "src": "%s.%s" % (WORD_FORM[m.group(1)], m.group(2))}
    m = re.search(r"Enter (?:the )?amount from (?:line (\d{1,2}[a-z]?) of your )?Form 1040(?:[^.]*?), line (\d{1,2}[a-z]?)", body) or \
        re.search(r"Enter the amount from line (\d{1,2}[a-z]?) of your Form 1040", body)
    if m:
        ln = [g for g in m.groups() if g][-1] if m.groups() else None
        if ln:
            return {"op": "carry", "src": "1040.%s" % ln}
    return None


def template_equations(year):
    """equations of all IRS templates of a year -> (list, stats)"""
    import habutax.forms as F
    eqs, stats = [], {"fields_with_label": 0, "parsed": 0, "unresolved": 0}
    for cls in F.available_forms[year]:
        inst = cls.valid_instances[0] if hasattr(cls, "valid_instances") else None
        try:
            f = cls(instance=inst)
        except Exception:     # noqa
            continue
        pdf = f.pdf_file()
        if not pdf:
            continue
        tree = pdfparse.parse_xfa(pdf)
        if tree is None:
            continue
        order = numeric_lines(f)
        seen = set()
        for path, t in tree.items():
            lab = pdfparse.label_line(t["speak"])
            if not lab or t["kind"] != "text" or lab in seen:
                continue
            stats["fields_with_label"] += 1
            if lab not in order:
                continue
            eq = parse_instruction(lab, t["speak"], order)
            if eq is None:
                continue
            if any(a not in order for a in eq.get("args", [])):
                stats["unresolved"] += 1
                continue
            seen.add(lab)
            eq.update({"form": cls.form_name, "line": lab, "text": t["speak"][:160], "origin": "template"})
            eqs.append(eq)
            stats["parsed"] += 1
    return eqs, stats
