"""Runs the real `habutax solve` command in-process with a scripted keyboard (DESIGN 3.4 / C20)."""
import argparse
import builtins
import configparser
import contextlib
import io
import os
import re


class Keyboard(object):
    """replacement for input(): answers by input name, interrupts at the k-th question"""

    def __init__(self, answers, default=None, interrupt_at=None, kind=None, invalid_first=False):
        self.answers, self.default = answers, default
        self.interrupt_at, self.kind = interrupt_at, kind
        self.invalid_first = invalid_first
        self.questions = []          # input names in the order asked
        self.typed = []              # (name, text) actually answered
        self.current = None
        self.interrupted = False
        self.repeats = 0             # re-prompts for the current question (the command asks again after an invalid answer)

    def __call__(self, prompt=""):
        m = re.search(r"----\[ (.+?) \]----", prompt)
        if not m:
            self.repeats += 1
            if self.repeats > 3:
                raise EOFError()     # the scripted answer is not accepted: end of input instead of answering it for ever
        if m:
            self.repeats = 0
            self.current = m.group(1)
            self.questions.append(self.current)
            if self.interrupt_at is not None and len(self.questions) == self.interrupt_at:
                self.interrupted = True
                if self.kind == "ctrlc":
                    raise KeyboardInterrupt()
                if self.kind == "eof":
                    raise EOFError()
        name = self.current
        if m and self.invalid_first and name in self.answers and self.kinds_numeric(name):
            return "not-a-value"       # answered properly on the re-prompt
        if name in self.answers:
            text = self.answers[name]
        elif callable(self.default):
            text = self.default(name)
        elif self.default is not None:
            text = self.default
        else:
            raise EOFError()
        if not self.typed or self.typed[-1][0] != name:
            self.typed.append((name, text))
        else:
            self.typed[-1] = (name, text)
        return text

    def kinds_numeric(self, name):
        return False


def file_map(path):
    """-> (parsed_ok, {section.option: text})"""
    cp = configparser.ConfigParser()
    try:
        with open(path) as f:
            cp.read_file(f)
    except (configparser.Error, OSError, UnicodeDecodeError):
        return False, {}
    out = {}
    for sec in cp.sections():
        for opt in cp[sec]:
            out["%s.%s" % (sec, opt)] = cp.get(sec, opt, raw=True)
    return True, out


def run_solve(year, request, input_path, keyboard, solution_path=None, prompt=True, writeback=True):
    """-> dict(exc=class name or '', stdout=...)"""
    import habutax
    args = argparse.Namespace(input_file=input_path, year=year, forms=list(request), prompt_missing=prompt,
                              writeback_input=writeback, solution=solution_path)
    orig = builtins.input
    builtins.input = keyboard
    out = io.StringIO()
    exc = ""
    try:
        with contextlib.redirect_stdout(out):
            try:
                habutax.solve(args)
            except KeyboardInterrupt:
                exc = "KeyboardInterrupt"
            except SystemExit as e:
                exc = "SystemExit"
            except BaseException as e:     # noqa
                exc = type(e).__name__
    finally:
        builtins.input = orig
    return {"exc": exc, "stdout": out.getvalue()}


def run_main(argv, keyboard=None):
    """the real entry point with a command line: -> dict(exc, stdout)"""
    import sys
    import habutax
    orig_argv, orig_input = sys.argv, builtins.input
    sys.argv = ["habutax"] + list(argv)
    if keyboard is not None:
        builtins.input = keyboard
    out = io.StringIO()
    exc = ""
    try:
        with contextlib.redirect_stdout(out), contextlib.redirect_stderr(io.StringIO()):
            try:
                habutax.main()
            except SystemExit as e:
                exc = "" if e.code in (0, None) else "SystemExit"
            except BaseException as e:     # noqa
                exc = type(e).__name__
    finally:
        sys.argv, builtins.input = orig_argv, orig_input
    return {"exc": exc, "stdout": out.getvalue()}
