"""C06 (object level): DependencyTracker -- TLC model of all histories + every transition of the real object's reachable
state graph validated against TrackerCore!Step (the MongoDB 'one test per transition' use)."""
import json
import os
import re
import shutil

import common


class W(object):
    """a waiter as the solver registers them: an object with name() / base_name() (two of them share a base name)"""

    def __init__(self, full):
        self.full = full

    def name(self):
        return self.full

    def base_name(self):
        return self.full.split(".", 1)[1]

    def __repr__(self):
        return self.full


class Driver(object):
    """a real DependencyTracker driven by a history of operations"""

    def __init__(self):
        from habutax.solver import DependencyTracker
        self.t = DependencyTracker()
        self.gen = None
        self.ws = {}

    def waiter(self, full):
        if full not in self.ws:
            self.ws[full] = W(full)
        return self.ws[full]

    def apply(self, op):
        t = self.t
        k = op["op"]
        if k == "add":
            t.add_unmet(op["d"], self.waiter(op["w"]))
            return "None"
        if k == "meet":
            t.meet(op["d"])
            return "None"
        if k == "has_met":
            return str(bool(t.has_met()))
        if k == "has_unmet":
            return str(bool(t.has_unmet()))
        if k == "next":
            if self.gen is None:
                self.gen = t.met_dependents()
            try:
                return next(self.gen).name()
            except StopIteration:
                self.gen = None
                return "STOP"
        raise ValueError(k)

    def state(self):
        return {"unmet": {d: [x.name() for x in w] for d, w in self.t._unmet.items()}, "met": list(self.t._met)}


def real_graph(deps, waiters, max_ops):
    ops = [{"op": "add", "d": d, "w": w} for d in deps for w in waiters] + [{"op": "meet", "d": d} for d in deps] + \
          [{"op": "next"}, {"op": "has_met"}, {"op": "has_unmet"}]
    seen = {}
    frontier = [[]]
    trans = []
    key0 = json.dumps({"unmet": {}, "met": []}, sort_keys=True)
    seen[key0] = []
    while frontier:
        nxt = []
        for hist in frontier:
            if len(hist) >= max_ops:
                continue
            for op in ops:
                d = Driver()
                for h in hist:
                    d.apply(h)
                pre = d.state()
                try:
                    ret = d.apply(op)
                except Exception as e:      # noqa
                    ret = "EXC:" + type(e).__name__
                post = d.state()
                trans.append({"pre": pre, "op": op, "post": post, "ret": ret})
                key = json.dumps(post, sort_keys=True)
                if key not in seen and op["op"] in ("add", "meet", "next"):
                    seen[key] = hist + [op]
                    nxt.append(hist + [op])
        frontier = nxt
    return trans, len(seen)


def run(tier, rep, cov):
    work = common.mkwork()
    try:
        for f in ("Tracker.cfg",):
            shutil.copy(os.path.join(common.SPEC, f), work)
        cfgp = os.path.join(work, "Tracker.cfg")
        if tier == "thorough":
            s = open(cfgp).read().replace("MaxOps = 7", "MaxOps = 8")
            open(cfgp, "w").write(s)
        mc = common.run_tlc(os.path.join(common.SPEC, "Tracker.tla"), cfgp, cwd=work, timeout=1800)
        if mc.violated:
            for v in mc.violated:
                rep.violation("tracker-model:%s" % v, mc.error_excerpt(60), {"kind": "tlc-counterexample"})
        elif not mc.ok:
            raise common.MachineryError("TLC failed on Tracker.tla:\n" + mc.error_excerpt(40))
        trans, nstates = real_graph(["d1", "d2"], ["f.w1", "g.w1", "f.w2"], 5 if tier == "quick" else 6)
        path = os.path.join(work, "trk.json")
        json.dump({"trans": trans}, open(path, "w"))
        c2 = os.path.join(work, "v.cfg")
        open(c2, "w").write("SPECIFICATION VSpec\nCHECK_DEADLOCK FALSE\n")
        res = common.run_tlc(os.path.join(common.SPEC, "TrackerTrace.tla"), c2, cwd=work, workers=1, env={"HV_TRK_FILE": path}, timeout=1800, heap="6g")
    finally:
        common.rmwork(work)
    if res.rc != 0 or res.distinct != len(trans) + 1:
        raise common.MachineryError("TrackerTrace.tla failed (rc=%s)\n%s" % (res.rc, res.error_excerpt(40)))
    for m in re.finditer(r'^"TRK\|(\d+)\|"$', res.out, re.M):
        x = trans[int(m.group(1)) - 1]
        rep.violation("tracker:%s:%s" % (x["op"]["op"], json.dumps(x["pre"], sort_keys=True)[:80]),
                      "DependencyTracker.%s from state %s gives %s / %s, not what TrackerCore!Step gives" % (x["op"], x["pre"], x["post"], x["ret"]), {"kind": "tracker-transition", "transition": x})
    apalache_step(tier, rep, cov)
    cov["tracker_model_states"] = mc.distinct
    cov["tracker_real_states"] = nstates
    cov["tracker_real_transitions_validated"] = len(trans)


def apalache_step(tier, rep, cov):
    """The bookkeeping with bounded lists (spec/apalache/TrackerApa.tla): TLC explores its WHOLE state graph (finite: histories
    of any length) and checks on every state that each method agrees with TrackerCore!Step; in the thorough tier Apalache
    additionally shows that the invariant is inductive (base case and step)."""
    import subprocess
    apa = os.path.join(common.SPEC, "apalache")
    work = common.mkwork()
    try:
        for f in ("TrackerApa.tla", "TrackerApaEq.tla", "TrackerApaEq.cfg"):
            shutil.copy(os.path.join(apa, f), work)
        shutil.copy(os.path.join(apa, "tlcstub", "Apalache.tla"), work)
        eq = common.run_tlc("TrackerApaEq", os.path.join(work, "TrackerApaEq.cfg"), cwd=work, timeout=1800)
        if eq.violated:
            for v in eq.violated:
                rep.violation("tracker-bounded-lists:%s" % v, eq.error_excerpt(60), {"kind": "tlc-counterexample"})
        elif not eq.ok:
            raise common.MachineryError("TLC failed on TrackerApaEq.tla:\n" + eq.error_excerpt(40))
        cov["tracker_bounded_lists_states_all_histories"] = eq.distinct
        if tier == "thorough":
            os.remove(os.path.join(work, "Apalache.tla"))        # Apalache brings its own
            outcomes = []
            for args in (["--init=Init", "--inv=IndInv", "--length=0"], ["--init=IndInit", "--inv=IndInv", "--length=1"]):
                env = dict(os.environ)
                env.pop("JAVA_TOOL_OPTIONS", None)
                p = subprocess.run(["apalache-mc", "check"] + args + ["--out-dir=" + os.path.join(work, "apa-out"), "TrackerApa.tla"], cwd=work, env=env,
                                   stdout=subprocess.PIPE, stderr=subprocess.STDOUT, text=True, timeout=3000)
                if "The outcome is: NoError" in p.stdout:
                    outcomes.append("NoError")
                elif "The outcome is: Error" in p.stdout:
                    outcomes.append("Error")
                    rep.violation("tracker-inductive:%s" % " ".join(args), p.stdout[-1500:], {"kind": "apalache-counterexample"})
                else:
                    raise common.MachineryError("apalache-mc failed:\n" + p.stdout[-1500:])
            cov["apalache_inductive_invariant"] = {"base_case": outcomes[0], "step": outcomes[1], "invariant": "TypeOK /\\ Shape /\\ ExactlyOnce /\\ MetIsMet /\\ NeverEarly"}
    finally:
        common.rmwork(work)
