"""Shared machinery: paths, TLC runner, evidence, findings, violation reporting.

Exit codes (DESIGN section 9): 0 held, 1 violation (with replay), 2 machinery failure.
"""
import json
import os
import re
import shutil
import subprocess
import sys
import tempfile
import time

ROOT = os.path.dirname(os.path.dirname(os.path.abspath(__file__)))
REPO = os.environ.get("HABUTAX_REPO", "/repo")
SPEC = os.path.join(ROOT, "spec")
EVID = os.environ.get("HV_EVID_DIR") or os.path.join(ROOT, "evidence")
REPLAYS = os.environ.get("HV_REPLAY_DIR") or os.path.join(ROOT, "replays")
TLA_JAR = "/opt/veriftools/tla/tla2tools.jar"
TLA_DEPS = "/opt/veriftools/tla/CommunityModules-deps.jar"
NCPU = os.cpu_count() or 4


class MachineryError(Exception):
    """The checker itself failed (exit 2); says nothing about habutax."""


def seed():
    try:
        return int(os.environ.get("VERIF_SEED", "0"))
    except ValueError:
        return 0


def mkwork(prefix="hv_"):
    return tempfile.mkdtemp(prefix=prefix)


def rmwork(path):
    shutil.rmtree(path, ignore_errors=True)


# ---------------------------------------------------------------------------------------------
# TLC

class TlcResult(object):
    def __init__(self, rc, out, wall):
        self.rc = rc
        self.out = out
        self.wall = wall
        self.generated = 0
        self.distinct = 0
        self.depth = 0
        m = None
        for m in re.finditer(r"(\d+) states generated, (\d+) distinct states found", out):
            pass
        if m:
            self.generated = int(m.group(1))
            self.distinct = int(m.group(2))
        m = re.search(r"The depth of the complete state graph search is (\d+)", out)
        if m:
            self.depth = int(m.group(1))
        self.violated = re.findall(r"Error: Invariant (\S+) is violated", out)
        self.violated += re.findall(r"Error: Action property (\S+) is violated", out)
        if "Temporal properties were violated" in out:
            self.violated.append("<temporal>")
        if "Error: Deadlock reached" in out:
            self.violated.append("<deadlock>")
        self.ok = (rc == 0 and "Model checking completed. No error has been found." in out) or \
                  (rc == 0 and "Finished in" in out and not self.violated and "Error:" not in out)
        self.printed = re.findall(r"^(<<.*>>|\[.*\]|\".*\")$", out, re.M)

    def coverage(self):
        """per-action counts from -coverage output: {action: (distinct, total)}"""
        cov = {}
        for m in re.finditer(r"^<(\w+) line \d+, col \d+ to line \d+, col \d+ of module (\w+)>: (\d+):(\d+)", self.out, re.M):
            cov[m.group(1)] = (int(m.group(3)), int(m.group(4)))
        return cov

    def error_excerpt(self, n=60):
        lines = self.out.splitlines()
        for i, l in enumerate(lines):
            if l.startswith("Error:"):
                return "\n".join(lines[i:i + n])
        return "\n".join(lines[-n:])


def run_tlc(module, cfg, cwd, workers=None, timeout=1800, simulate=None, depth=None,
            env=None, coverage=False, extra=None, deadlock_off=False, seed_=None, dfs_queue=False,
            heap="4g"):
    """Run TLC on cwd/module.tla with cwd/cfg. The spec directory is on the library path."""
    meta = mkwork("hv_meta_")
    cmd = ["java", "-XX:+UseParallelGC", "-Xmx" + heap, "-Xss16m", "-Djava.io.tmpdir=" + meta,      # TLC leaves an empty tlc-* directory per run there
           "-DTLA-Library=" + SPEC + os.pathsep + os.path.join(SPEC, "gen")]
    if dfs_queue:
        cmd.append("-Dtlc2.tool.queue.IStateQueue=StateDeque")
    cmd += ["-cp", TLA_JAR + os.pathsep + TLA_DEPS, "tlc2.TLC",
            "-metadir", meta, "-noGenerateSpecTE", "-config", cfg,
            "-workers", str(workers or NCPU)]
    if simulate:
        cmd += ["-simulate", simulate]
    if depth:
        cmd += ["-depth", str(depth)]
    if coverage:
        cmd += ["-coverage", "1"]
    if deadlock_off:
        cmd += ["-deadlock"]
    if seed_ is not None:
        cmd += ["-seed", str(seed_)]
    if extra:
        cmd += extra
    cmd.append(module)
    e = dict(os.environ)
    e.pop("JAVA_TOOL_OPTIONS", None)
    if env:
        e.update(env)
    t0 = time.time()
    try:
        p = subprocess.run(cmd, cwd=cwd, env=e, stdout=subprocess.PIPE, stderr=subprocess.STDOUT,
                           timeout=timeout, text=True, errors="replace")
        rc, out = p.returncode, p.stdout
    except subprocess.TimeoutExpired as te:
        rc, out = 124, (te.stdout or "") if isinstance(te.stdout, str) else (te.stdout or b"").decode("utf8", "replace")
        out += "\n<<TLC TIMEOUT>>"
    finally:
        rmwork(meta)
    return TlcResult(rc, out, time.time() - t0)


def sany(path):
    p = subprocess.run(["java", "-DTLA-Library=" + SPEC + os.pathsep + os.path.join(SPEC, "gen"),
                        "-cp", TLA_JAR + os.pathsep + TLA_DEPS, "tla2sany.SANY", path],
                       stdout=subprocess.PIPE, stderr=subprocess.STDOUT, text=True, cwd=os.path.dirname(path))
    return p.returncode == 0 and "Semantic errors" not in p.stdout and "***Parse Error***" not in p.stdout and "Fatal" not in p.stdout, p.stdout


# ---------------------------------------------------------------------------------------------
# TLA+ value printing

def tla(v):
    """Python value -> TLA+ expression. dict -> function/record with string keys, list -> sequence,
    set/frozenset -> set, tuple -> sequence."""
    if isinstance(v, bool):
        return "TRUE" if v else "FALSE"
    if isinstance(v, int):
        return str(v) if v >= 0 else "(-%d)" % -v
    if isinstance(v, str):
        return '"' + v.replace("\\", "\\\\").replace('"', '\\"') + '"'
    if isinstance(v, (list, tuple)):
        return "<<" + ", ".join(tla(x) for x in v) + ">>"
    if isinstance(v, (set, frozenset)):
        return "{" + ", ".join(tla(x) for x in sorted(v, key=lambda x: (str(type(x)), x))) + "}"
    if isinstance(v, dict):
        if not v:
            return "<<>>"
        ks = list(v.keys())
        if all(isinstance(k, str) and re.match(r"^[A-Za-z][A-Za-z0-9_]*$", k) for k in ks) and getattr(v, "record", False):
            return "[" + ", ".join("%s |-> %s" % (k, tla(v[k])) for k in ks) + "]"
        return "(" + " @@ ".join("%s :> %s" % (tla(k), tla(v[k])) for k in ks) + ")"
    if v is None:
        return '"__none__"'
    raise TypeError("cannot print %r as TLA+" % (v,))


class Rec(dict):
    """dict printed as a TLA+ record [k |-> v]"""
    record = True


# ---------------------------------------------------------------------------------------------
# findings, violations, evidence

def load_findings():
    path = os.path.join(ROOT, "KNOWN_FINDINGS.jsonl")
    known, fixed = [], []
    if os.path.exists(path):
        for line in open(path):
            line = line.strip()
            if not line or line.startswith("#"):
                continue
            rec = json.loads(line)
            (fixed if rec.get("status") == "fixed" else known).append(rec)
    return known, fixed


class Reporter(object):
    """Collects violations of one property, separates listed known findings, writes replay files."""

    def __init__(self, pid, tier):
        self.pid = pid
        self.tier = tier
        self.t0 = time.time()
        self.known = [k for k in load_findings()[0] if k["property"] == pid]
        self.violations = []      # (locus, replay dict)
        self.known_hits = {}      # locus -> description
        self.notes = []

    def violation(self, locus, detail, replay=None):
        """locus: stable string identifying the failing input/call site/history."""
        for k in self.known:
            if k["locus"] == locus or (k.get("locus_prefix") and locus.startswith(k["locus_prefix"])):
                self.known_hits.setdefault(k["locus"], k.get("what", ""))
                return False
        for (l, _d, _r) in self.violations:
            if l == locus:
                return True
        self.violations.append((locus, detail, replay))
        return True

    def finish(self, level, coverage, assumptions=None):
        for locus, what in sorted(self.known_hits.items()):
            print("KNOWN-FINDING: property=%s %s -- %s" % (self.pid, locus, what))
        os.makedirs(os.path.join(REPLAYS, self.pid), exist_ok=True)
        for n, (locus, detail, replay) in enumerate(self.violations[:50]):
            path = os.path.join(REPLAYS, self.pid, "v%03d.json" % n)
            with open(path, "w") as f:
                json.dump({"property": self.pid, "locus": locus, "detail": detail, "replay": replay}, f, indent=1, default=str)
            print("VIOLATION property=%s replay=%s" % (self.pid, path))
            print("  locus: %s" % locus)
            print("  detail: %s" % (str(detail)[:2000]))
        coverage = dict(coverage)
        coverage["known_findings_reported"] = sorted(self.known_hits)
        if self.notes:
            coverage["notes"] = self.notes
        ev = {
            "property_id": self.pid, "tier": self.tier, "seed": seed(), "level": level,
            "coverage": coverage, "assumptions": assumptions or [],
            "wall_s": round(time.time() - self.t0, 2), "violations": len(self.violations),
        }
        os.makedirs(EVID, exist_ok=True)
        with open(os.path.join(EVID, self.pid + ".json"), "w") as f:
            json.dump(ev, f, indent=1, default=str)
        return 1 if self.violations else 0
