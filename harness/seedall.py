"""Regression over the kept seeded changes: every change in /verif/seeded/<id>/ is applied to a scratch worktree of the
repository's HEAD and the checks that are recorded as catching it (result.json "alarms") are run again; a check that no
longer alarms, or fails as machinery, is reported.
    /venv/bin/python harness/seedall.py [-j 4] [seed id ...]
Scratch worktrees live under the system temp dir and are removed at the end.  Nothing in /repo is changed."""
import json
import os
import shutil
import subprocess
import sys
import tempfile
from concurrent.futures import ThreadPoolExecutor

HERE = os.path.dirname(os.path.dirname(os.path.abspath(__file__)))
REPO = "/repo"


def sh(cmd, cwd=None, env=None, timeout=3600):
    p = subprocess.run(cmd, cwd=cwd, env=env, stdout=subprocess.PIPE, stderr=subprocess.STDOUT, text=True, timeout=timeout)
    return p.returncode, p.stdout


def main():
    args = sys.argv[1:]
    jobs = 4
    if "-j" in args:
        jobs = int(args[args.index("-j") + 1])
        del args[args.index("-j"):args.index("-j") + 2]
    seeds = args or sorted(os.listdir(os.path.join(HERE, "seeded")))
    todo = []
    for sid in seeds:
        d = os.path.join(HERE, "seeded", sid)
        try:
            r = json.load(open(os.path.join(d, "result.json")))
        except Exception:      # noqa
            print("SKIP %s: no result.json" % sid)
            continue
        if not r.get("alarms"):
            print("SKIP %s: recorded as not caught" % sid)
            continue
        todo.append((sid, r["alarms"]))
    base = tempfile.mkdtemp(prefix="hv_seedall_")
    slots = []
    for k in range(jobs):
        wt = os.path.join(base, "wt%d" % k)
        rc, o = sh(["git", "-C", REPO, "worktree", "add", "--detach", wt, "HEAD"])
        if rc != 0:
            print(o)
            return 2
        slots.append(wt)
    free = list(slots)
    bad = []

    def one(item):
        sid, alarms = item
        wt = free.pop()
        try:
            sh(["git", "checkout", "--", "."], cwd=wt)
            rc, o = sh(["git", "apply", os.path.join(HERE, "seeded", sid, "patch.diff")], cwd=wt)
            if rc != 0:
                return sid, ["patch does not apply: " + o.strip()[:200]]
            tmp = tempfile.mkdtemp(prefix="hv_seed_", dir=base)
            env = dict(os.environ, HABUTAX_REPO=wt, HV_EVID_DIR=os.path.join(tmp, "ev"), HV_REPLAY_DIR=os.path.join(tmp, "rp"))
            problems = []
            for pid in alarms:
                rc, o = sh([os.path.join(HERE, "check"), pid, "--tier", "quick"], env=env)
                if rc == 0:
                    problems.append("%s no longer alarms" % pid)
                elif rc != 1:
                    problems.append("%s machinery failure (rc=%d): %s" % (pid, rc, o.strip().splitlines()[-1][:160] if o.strip() else ""))
            shutil.rmtree(tmp, ignore_errors=True)
            return sid, problems
        finally:
            sh(["git", "checkout", "--", "."], cwd=wt)
            free.append(wt)
    try:
        with ThreadPoolExecutor(max_workers=jobs) as ex:
            for sid, problems in ex.map(one, todo):
                print("%-45s %s" % (sid, "caught" if not problems else "; ".join(problems)), flush=True)
                if problems:
                    bad.append(sid)
    finally:
        for wt in slots:
            sh(["git", "-C", REPO, "worktree", "remove", "--force", wt])
        sh(["git", "-C", REPO, "worktree", "prune"])
        shutil.rmtree(base, ignore_errors=True)
    print("seeds re-run: %d, problems: %d %s" % (len(todo), len(bad), bad))
    return 1 if bad else 0


if __name__ == "__main__":
    sys.exit(main())
