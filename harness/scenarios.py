"""Scenario explorer for the shipped forms (DESIGN 5.2): builds returns by answering prompts.

A Profile fixes the shape of a return (year, status, numbers of payer forms, which optional parts
are used); amounts are drawn around decision boundaries.  The prompt callback is the only
interface, so exactly the demanded inputs get supplied, and they are recorded as the scenario's
input file.
"""
import random
import re

YEARS = (2021, 2022, 2023)
STATUSES = ["Single", "MarriedFilingJointly", "MarriedFilingSeparately", "HeadOfHousehold", "QSS"]


def status_name(year, st):
    if st == "QSS":
        return "QualifyingWidowWidower" if year == 2021 else "QualifyingSurvivingSpouse"
    return st


BOUNDARY_AMOUNTS = [0, 1, 25, 300, 600, 1499, 1500, 1501, 2500, 3000, 3600, 3650, 3850, 5000, 7300, 9950, 10000, 10275,
                    11000, 12550, 12950, 13850, 19900, 20550, 22000, 25100, 25900, 27700, 40400, 40525, 41675, 41775,
                    44625, 44725, 54100, 55800, 59750, 75000, 80800, 83350, 86375, 89075, 89250, 95375, 99999, 100000,
                    100001, 112500, 125000, 150000, 164925, 170050, 182100, 200000, 200001, 250000, 329850, 400000,
                    445850, 459750, 492300, 523600, 539900, 578125, 1000000]


class Profile(object):
    def __init__(self, rng, year=None, **force):
        r = rng
        self.year = year or r.choice(YEARS)
        self.status = r.choice(STATUSES)
        self.n = {"w-2": r.choice([0, 1, 1, 1, 2, 3]), "1099-int": r.choice([0, 0, 1, 2]), "1099-div": r.choice([0, 0, 1, 2]),
                  "1099-r": r.choice([0, 0, 0, 1, 2]), "1099-g": r.choice([0, 0, 0, 1]), "1098": r.choice([0, 0, 1, 2]),
                  "1099-oid": 0}
        self.dependents = r.choice([0, 0, 0, 1, 2, 3, 4])
        self.itemize = r.random() < 0.3
        self.nc = r.random() < 0.3
        self.sched1_adjust = r.random() < 0.3       # HSA etc.
        self.wage_scale = r.choice([20000, 60000, 60000, 120000, 230000, 230000, 600000])
        self.cents = r.random() < 0.5
        self.gate = None            # (input full name, affirmative answer) to flip
        self.yes_rate = 0.0         # probability of an affirmative answer to an unknown boolean
        self.foreign_tax = r.random() < 0.2
        self.qualified_div = r.random() < 0.5
        self.ira = r.random() < 0.5
        self.text_pool = None
        self.dup_w2 = r.random() < 0.15           # every W-2 copy carries the same amounts (two identical jobs)
        self.hsa_you = self.sched1_adjust and r.random() < 0.6
        self.hsa_spouse = self.sched1_adjust and r.random() < 0.5     # only asked on a joint return
        self.f8606 = r.random() < 0.25
        self.div_heavy = r.random() < 0.12        # small wages, qualified dividends above the taxable income (0 % / 15 % / 20 % buckets)
        self.ctc = [r.random() < 0.6 for _ in range(4)]          # which dependents qualify for the child credit
        self.under6 = [c and r.random() < 0.4 for c in self.ctc]
        if self.itemize and self.n["1098"] == 0 and r.random() < 0.85:
            self.n["1098"] = 1
        if self.foreign_tax and r.random() < 0.6:
            # more dividend payers than interest payers (and the other way round): per-payer loops must use their own counts
            if r.random() < 0.7:
                self.n["1099-int"] = max(1, min(self.n["1099-int"], 1))
                self.n["1099-div"] = self.n["1099-int"] + r.choice([1, 2])
            else:
                self.n["1099-div"] = max(1, min(self.n["1099-div"], 1))
                self.n["1099-int"] = self.n["1099-div"] + 1
        if self.div_heavy:
            self.n["1099-div"] = max(1, self.n["1099-div"])
            self.n["w-2"] = min(1, self.n["w-2"])
        for k, v in force.items():
            setattr(self, k, v)
        self.route_around()

    def route_around(self):
        """NC Schedule A line 1 yields an int (TypeError abort) without a Form 1098, and NC year_spouse_died yields an int
        for a surviving spouse: most NC returns avoid both so that the rest of the NC forms gets explored (DESIGN section 8)"""
        r = random.Random(repr(sorted(self.n.items())) + self.status)
        if self.nc and r.random() < 0.85:
            if self.n["1098"] == 0:
                self.n["1098"] = 1
            if self.status == "QSS":
                self.status = "HeadOfHousehold"

    def describe(self):
        d = dict(self.__dict__)
        d.pop("text_pool", None)
        return d


class Answerer(object):
    """prompt callback; records every answer in .given (ordered)"""

    def __init__(self, profile, rng, overrides=None, refuse=None, limit=4000):
        self.p = profile
        self.r = rng
        self.given = {}
        self.order = []
        self.overrides = overrides or {}
        self.refuse = refuse or set()
        self.limit = limit
        self.kinds = {}

    def amount(self, scale=None, allow_zero=True):
        r = self.r
        z = r.random()
        scale = scale or self.p.wage_scale
        if z < 0.15 and allow_zero:
            v = 0.0
        elif z < 0.45:
            v = float(r.choice([b for b in BOUNDARY_AMOUNTS if b <= 4 * scale] or [0])) + r.choice([0, 0, 0.01, -0.01, 0.5, 1])
        else:
            v = r.uniform(0, scale * 1.5)
        v = max(0.0, v)
        if not self.p.cents:
            v = float(int(v))
        return round(v, 2)

    def small(self, top=3000):
        v = self.r.choice([0.0, 0.0, self.r.uniform(0, top), float(self.r.choice([b for b in BOUNDARY_AMOUNTS if b <= top]))])
        return round(v if self.p.cents else float(int(v)), 2)

    def __call__(self, missing, needed_by):
        name = missing.name()
        self.kinds[name] = type(missing).__name__        # also for an answer served from the overrides (directed returns)
        if len(self.order) >= self.limit:
            return (None, False)
        if name in self.refuse:
            return (None, False)
        if name in self.overrides:
            val = self.overrides[name]
        else:
            val = self.answer(missing)
        if val is None:
            return (None, False)
        self.given[name] = val
        self.order.append(name)
        return (val, True)

    def answer(self, inp):
        p, r = self.p, self.r
        tname = type(inp).__name__
        self.kinds[inp.name()] = tname
        form = inp.section()
        base = inp.base_name()
        fbase = form.split(":")[0]
        if p.gate is not None and inp.name() == p.gate[0]:
            return p.gate[1]
        if tname == "EnumInput":
            members = list(inp.enum.__members__.keys())
            if base == "filing_status":
                return status_name(p.year, p.status)
            if base == "state" or "state" in base:
                return "NC" if "NC" in members else members[0]
            if base == "belongs_to" or "belongs" in base:
                if p.status == "MarriedFilingJointly":
                    return r.choice(members)
                return "taxpayer" if "taxpayer" in members else members[0]
            if inp.allow_empty and r.random() < 0.3:
                return ""
            return r.choice(members)
        if tname == "BooleanInput":
            return self.boolean(form, fbase, base)
        if tname == "IntegerInput":
            m = re.match(r"number_(.*)$", base)
            if m and m.group(1) in p.n:
                return str(p.n[m.group(1)])
            if base == "number_dependents":
                return str(p.dependents)
            nctc = sum(1 for k in range(min(p.dependents, 4)) if p.ctc[k])
            nu6 = sum(1 for k in range(min(p.dependents, 4)) if p.under6[k])
            if base in ("number_under_17", "number_under_18", "number_children_letter"):
                return str(nctc)
            if base in ("number_under_6", "number_qualifying_under_6"):
                return str(nu6)
            if base in ("number_6_to_17", "number_qualifying_6_to_17", "number_over_6"):
                return str(nctc - nu6)
            if base.startswith("number_") or "count" in base:
                return str(r.choice([0, 0, 1, 2]))
            if "year" in base:
                return str(p.year - r.choice([0, 1, 2, 5]))
            if "months" in base:
                return str(r.choice([12, 12, 6, 0]))
            return str(r.choice([0, 0, 1, 2, 3]))
        if tname == "FloatInput":
            return self.money(form, fbase, base)
        if tname == "SSNInput":
            return "%03d-%02d-%04d" % (r.randint(1, 899), r.randint(1, 99), r.randint(1, 9999))
        if tname == "RegexInput":
            if "routing" in base:
                return "011000015"
            return "12345678"
        # plain text
        if p.text_pool:
            return r.choice(p.text_pool)
        if "zip" in base:
            return "27601"
        if "name" in base:
            return r.choice(["Pat", "Sam Q", "O'Neil", "Lee-Ann"])
        if "apartment" in base:
            return r.choice(["", "#5", "2B", "Apt; 2"])
        return r.choice(["x", "Main St 1", "", "abc def", "Teacher #1", "a ; b"])

    def boolean(self, form, fbase, base):
        p, r = self.p, self.r
        yes, no = "yes", "no"
        full = "%s.%s" % (fbase, base)
        # structural (non-gate) questions
        if base == "itemize":
            return yes if p.itemize else no
        if base == "itemize_though_less":
            return no if r.random() < 0.7 else yes
        if base == "schedule_1_income_adjustments":
            return yes if p.sched1_adjust else no
        if base in ("additions_to_agi", "deductions_from_agi", "try_itemizing", "veteran", "spouse_veteran", "nc_residents", "no_consumer_use_tax"):
            return yes if r.random() < 0.45 else no
        if base in ("you_presidential_election", "spouse_presidential_election", "checking_account", "full_records"):
            return r.choice([yes, no])
        m = re.match(r"dependent_(\d+)_(ctc|odc)$", base)
        if m:
            c = p.ctc[int(m.group(1))]
            return (yes if c else no) if m.group(2) == "ctc" else (no if c else r.choice([yes, no]))
        if re.match(r"box_13_(retirement|sick)", base) or base in ("box_13_retirement_plan", "box_13_third_party_sick_pay"):
            return r.choice([yes, no])
        if base == "box_7_ira_sep_simple":
            return yes if p.ira and r.random() < 0.6 else no
        if base == "hsa_contribution_you":
            return yes if p.hsa_you else no
        if base == "hsa_contribution_spouse":
            return yes if p.hsa_spouse else no
        if base in ("ira_exception2_you", "ira_exception2_spouse"):
            return yes if p.f8606 else no
        if fbase == "1040_recovery_rebate_credit_wkst":
            # (2021) mostly both have a number; sometimes only one of a couple, with or without the armed-forces exception
            if base == "ssn_before_due_date":
                return yes if r.random() < 0.6 else no
            if base == "armed_forces":
                return yes if r.random() < 0.3 else no
            if base == "either_ssn_before_due_date":
                return yes if r.random() < 0.7 else no
        if fbase == "8606":
            if base in ("part_1_needed", "distribution_or_roth_conversion"):
                return yes if r.random() < 0.7 else no
            if base in ("part_2_needed", "part_3_needed"):
                return yes if r.random() < 0.25 else no
        if base in POSITIVE_DEFAULT:
            return yes
        if r.random() < p.yes_rate:
            return yes
        return no

    def money(self, form, fbase, base):
        p, r = self.p, self.r
        if fbase == "w-2" and p.dup_w2 and not form.endswith(":0"):
            first = "w-2:0.%s" % base
            if first in self.given:
                return self.given[first]
        if fbase == "w-2":
            if base in ("box_1", "box_3", "box_5", "box_16"):
                w = getattr(self, "_w2_" + form, None)
                if w is None:
                    w = self.amount(allow_zero=False)
                    if p.div_heavy:
                        w = round(r.uniform(3000.0, 15000.0), 2 if p.cents else 0)
                    elif p.wage_scale == 230000:
                        # the window in which Form 8959 (Additional Medicare Tax) is needed but Form 6251 is not yet
                        w = round(r.uniform(201000.0, 275000.0), 2 if p.cents else 0) if form.endswith(":0") else round(r.uniform(1000.0, 20000.0), 0)
                    elif w < 66000.0 and r.random() < 0.8:
                        w = round(66000.0 + r.uniform(0, max(1000.0, p.wage_scale)), 2 if p.cents else 0)   # above the (unimplemented) EIC range
                    setattr(self, "_w2_" + form, w)
                return "%.2f" % (w if base != "box_3" else min(w, 147000.0))
            if base in ("box_2", "box_17"):
                w = getattr(self, "_w2_" + form, 50000.0)
                return "%.2f" % round(w * r.choice([0.0, 0.05, 0.1, 0.15, 0.22, 0.3]), 2 if p.cents else 0)
            if base in ("box_4",):
                return "%.2f" % round(min(getattr(self, "_w2_" + form, 50000.0), 147000.0) * 0.062, 2)
            if base in ("box_6",):
                m = round(getattr(self, "_w2_" + form, 50000.0) * 0.0145, 2)
                # sometimes the employer withheld a little (cent rounding) or a lot less, or more, than 1.45 %
                return "%.2f" % max(0.0, m + r.choice([0.0, 0.0, 0.0, -0.01, -0.05, -120.0, 0.01, 35.0]))
            return "%.2f" % self.small(2000)
        if fbase in ("1099-int", "1099-div", "1099-g", "1099-r", "1098") and getattr(p, "plain_payers", False):
            return "0.00"          # a directed scenario sets the boxes it is about through overrides
        if fbase in ("1099-int", "1099-div", "1099-g", "1099-r", "1098"):
            if base in ("box_6", "box_7") and fbase in ("1099-int", "1099-div") and not (fbase == "1099-int" and base == "box_7"):
                if fbase == "1099-div" and base == "box_6":
                    return "%.2f" % self.small(500)
                # mostly small amounts (several copies together stay below the $300 / $600 election threshold)
                return "%.2f" % (r.choice([0.0, 20.0, 45.5, 120.0, 75.25, self.small(400)]) if p.foreign_tax else 0.0)
            if fbase == "1099-div" and p.div_heavy and base in ("box_1a", "box_1b"):
                d = getattr(self, "_div_" + form, None)
                if d is None:
                    d = round(r.uniform(20000.0, 60000.0), 0)
                    setattr(self, "_div_" + form, d)
                return "%.2f" % (d if base == "box_1a" else d - r.choice([0.0, 0.0, 500.0]))
            if fbase == "1099-div" and base == "box_1b":
                return "%.2f" % (self.small(3000) if p.qualified_div else 0.0)
            if fbase == "1099-div" and base == "box_1a":
                return "%.2f" % (3000.0 + self.small(3000))
            if fbase == "1099-r" and base == "box_1":
                return "%.2f" % self.amount(30000, allow_zero=False)
            if fbase == "1099-r" and base == "box_2a":
                return "%.2f" % self.small(20000)
            if fbase == "1098" and base == "box_1":
                return "%.2f" % self.amount(15000)
            return "%.2f" % self.small(3000)
        if fbase == "nc_d-400" and (base.startswith("nc_") or base.endswith("estimated_income_tax")):
            return "%.2f" % r.choice([0.0, 0.0, 0.0, 0.0, 10.0])
        if base == "county_tax_pct":
            return r.choice(["0.0675", "0.07", "0.0725", "0.075"])
        if base == "out_of_state_purchases":
            return "%.2f" % r.choice([0.0, 100.0, 1000.0, self.small(5000)])
        if base == "other_state_sales_tax":
            # nothing, less than NC's rate on typical purchases, or more than any NC rate could give
            return "%.2f" % r.choice([0.0, 5.0, self.small(60), 80.0, 400.0])
        if base == "advance_ctc_payments":
            # 2021: nothing, half, all of the child part of the credit, a little more (eats into the credit for other
            # dependents), more than the whole credit
            nctc = sum(1 for k in range(min(p.dependents, 4)) if p.ctc[k])
            nu6 = sum(1 for k in range(min(p.dependents, 4)) if p.under6[k])
            child = 3600.0 * nu6 + 3000.0 * (nctc - nu6)
            return "%.2f" % r.choice([0.0, child / 2, child, child + 250.0, child + 250.0, child + 2100.0])
        if base == "educator_expenses":
            return "%.2f" % r.choice([0.0, 0.0, 100.0, 250.0, 300.0])
        if base in ("estimated_tax_payments", "other_federal_withholding"):
            return "%.2f" % self.small(8000)
        if base == "apply_to_estimated_tax":
            # sometimes more than any overpayment can be
            return "%.2f" % r.choice([0.0, 0.0, self.small(500), 2500.0, 50000.0, 1000000.0])
        if base == "tax_penalty":
            return "%.2f" % self.small(500)
        if fbase == "8606":
            # basis against value: mostly a fraction of it, sometimes more than the IRAs are still worth
            if base == "traditional_basis":
                return "%.2f" % r.choice([0.0, 2000.0, 10000.0, 30000.0])
            if base == "year_end_value_non_roth":
                return "%.2f" % r.choice([0.0, 16000.0, 44000.0, 120000.0])
            amt = r.choice([0.0, 0.0, 500.0, 4000.0, self.small(6000)])
            # amounts that are PART of another amount stay within it (the basis in a conversion is not more than the conversion,
            # next year's share of the contributions not more than the contributions): the form has no floor for such input
            cap = {"converted_cost_basis": "net_converted", "nondeductible_contributions_next_year": "nondeductible_contributions"}.get(base)
            if cap is not None:
                try:
                    amt = min(amt, float(self.given.get("%s.%s" % (form, cap), "0") or 0))
                except ValueError:
                    amt = 0.0
            return "%.2f" % amt
        if fbase == "8889":
            if base == "archer_msa":
                return "0.00"
            return "%.2f" % self.small(3000)
        return "%.2f" % self.small(5000)


# booleans whose AFFIRMATIVE answer is the ordinary, supported case
POSITIVE_DEFAULT = set([
    "principal_abode_us",
    "age_under_55", "hsa_full_year", "ira_exception1_you_total", "ira_exception1_spouse_total",
    "ira_exception3_you_total", "ira_exception3_spouse_total", "full_year_resident", "lived_together_all_year",
    "same_coverage_all_year", "covered_all_year", "us_citizen",
])


def solve_scenario(year, request, profile, rng, overrides=None, conf=None, chooser=None, trace=True, tid=0,
                   snap="scalars", field_names=(), refuse=None, preseed=None, meta=None):
    """-> (trace|None, result, solver, answerer)"""
    import configparser
    import habutax.forms as F
    import runs
    forms = F.available_forms[year]
    conf = conf if conf is not None else configparser.ConfigParser()
    ans = Answerer(profile, rng, overrides=overrides, refuse=refuse)
    m = {"year": year, "request": list(request), "profile": profile.describe()}
    if meta:
        m.update(meta)
    tr, res, solver = runs.run_traced(forms, conf, request, field_names, user=ans, chooser=chooser, mode="real",
                                      snap=snap, tid=tid, meta=m, preseed=preseed, max_events=30000)
    m["given"] = dict(ans.given)
    return tr, res, solver, ans
