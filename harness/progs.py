"""Abstract form programs: generation, emission as TLA+ constants, and construction of real
habutax Form classes from the same JSON (DESIGN 5.1).

Program JSON:
  {"id": n,
   "catalogue": {cname: {"instances": [..] | None, "inputs": [..], "req": [..], "opt": [..],
                         "body": {line: tree}}},
   "unknown": [cname, ...],               # form names that are NOT in the catalogue
   "request": [form instance, ...], "fieldNames": [full line name, ...]}
Trees: {"k":"in"|"ln","n":name,"br":[t]|[t0,t1]} {"k":"fo","f":form,"b":t}
       {"k":"ret","e":"const"|"acc","c":0|1} {"k":"none"} {"k":"unimpl"} {"k":"raise"}
A name without "." is relative to the form instance that owns the line.
"enum": [line, ...] (optional, per catalogue entry): lines declared as EnumField -- their blank value is stored as
None (every other field type stores 0 / "" / False); a reader sees a blank as 0.  The specification is the same.
"""
import random

from common import Rec, tla
import natsort

LINE_POOL = ["1", "2", "2a", "3", "10", "1b", "7", "12", "4z", "2_a", "1-b"]     # "2_a"/"2a" and "1-b"/"1b" have the same natural sort key
INPUT_POOL = ["x", "y", "w", "q"]


# ---------------------------------------------------------------------------------------------
# expansion: catalogue with instances -> flat universe of form instances and full names

def instances_of(prog, cname):
    inst = prog["catalogue"][cname].get("instances")
    return [cname] if not inst else ["%s:%s" % (cname, k) for k in inst]


def full(owner, name):
    return name if "." in name else "%s.%s" % (owner, name)


def tree_names(t, owner, acc):
    k = t["k"]
    if k in ("in", "ln"):
        acc.append((k, full(owner, t["n"])))
        for b in t["br"]:
            tree_names(b, owner, acc)
    elif k == "fo":
        acc.append(("fo", t["f"]))
        tree_names(t["b"], owner, acc)
    return acc


def expand(prog):
    """-> dict with the flat catalogue the specification uses"""
    known = sorted(prog["catalogue"].keys())
    base, lines, req, inps, body, form_of = {}, {}, {}, {}, {}, {}
    mentioned_forms = set()
    for c in known:
        for f in instances_of(prog, c):
            mentioned_forms.add(f)
    refs = []
    for c in known:
        for f in instances_of(prog, c):
            for l, t in prog["catalogue"][c]["body"].items():
                refs += tree_names(t, f, [])
    for n in prog["fieldNames"]:
        refs.append(("ln", n))
    for kind, n in refs:
        if kind == "fo":
            mentioned_forms.add(n)
        else:
            mentioned_forms.add(n.split(".")[0])
    for f in prog["request"]:
        mentioned_forms.add(f)
    for f in sorted(mentioned_forms):
        c = f.split(":")[0]
        base[f] = c
        if c in prog["catalogue"]:
            d = prog["catalogue"][c]
            lines[f] = set(full(f, l) for l in d["req"] + d["opt"])
            req[f] = [full(f, l) for l in d["req"]]
            inps[f] = set(full(f, i) for i in d["inputs"])
            for l, t in d["body"].items():
                body[full(f, l)] = retree(t, f)
            for n in lines[f] | inps[f]:
                form_of[n] = f
    for kind, n in refs:
        if kind != "fo":
            form_of.setdefault(n, n.split(".")[0])
    all_lines = set().union(*lines.values()) if lines else set()
    all_inputs = set().union(*inps.values()) if inps else set()
    rank = natsort.ranks(sorted(form_of.keys()))
    return {"known": set(known), "base": base, "formOf": form_of, "lines": lines, "req": req,
            "inps": inps, "rank": rank, "body": body, "all_lines": all_lines, "all_inputs": all_inputs}


def retree(t, owner):
    k = t["k"]
    if k in ("in", "ln"):
        return Rec(k=k, n=full(owner, t["n"]), br=[retree(b, owner) for b in t["br"]])
    if k == "fo":
        return Rec(k="fo", f=t["f"], b=retree(t["b"], owner))
    if k == "ret":
        return Rec(k="ret", e=t["e"], c=t.get("c", 0))
    return Rec(k=k)


def prog_to_tla(prog):
    x = expand(prog)
    cat = Rec(known=x["known"], base=x["base"], formOf=x["formOf"], lines=x["lines"], req=x["req"],
              inps=x["inps"], rank=x["rank"])
    return tla(Rec(id=prog["id"], cat=cat, body=x["body"], request=prog["request"],
                   fieldNames=prog["fieldNames"], inputs=x["all_inputs"], lines=x["all_lines"]))


def emit_module(progs, path, name="GenProgs"):
    with open(path, "w") as f:
        f.write("---- MODULE %s ----\nEXTENDS TLC, Integers, Sequences\n\n" % name)
        f.write("GenProgramsRaw == <<\n")
        f.write(",\n".join("  " + prog_to_tla(p) for p in progs))
        f.write("\n>>\nGenPrograms == TLCEval(GenProgramsRaw)\n====\n")


# ---------------------------------------------------------------------------------------------
# generation

class Gen(object):
    def __init__(self, rng, max_forms=2, max_lines=3, max_inputs=2, depth=2, with_instances=True,
                 hazards=True, with_fo=True):
        self.r = rng
        self.max_forms, self.max_lines, self.max_inputs, self.depth = max_forms, max_lines, max_inputs, depth
        self.with_instances, self.hazards, self.with_fo = with_instances, hazards, with_fo

    def program(self, pid):
        r = self.r
        nforms = r.randint(1, self.max_forms)
        cnames = ["a", "b", "c", "d"][:nforms]
        cat = {}
        for c in cnames:
            nl = r.randint(1, self.max_lines)
            ls = r.sample(LINE_POOL, nl)
            nreq = r.randint(0, nl) if c != "a" else r.randint(1, nl)
            ni = r.randint(0, self.max_inputs)
            inst = None
            if self.with_instances and c != "a" and r.random() < 0.3:
                inst = ["0", "1"]
            cat[c] = {"instances": inst, "inputs": r.sample(INPUT_POOL, ni), "req": ls[:nreq], "opt": ls[nreq:], "body": {},
                      "enum": [l for l in ls if r.random() < 0.2]}
        prog = {"id": pid, "catalogue": cat, "unknown": ["z"], "request": [], "fieldNames": []}
        # the pool of things a line may read
        line_refs, input_refs = [], []
        for c in cnames:
            for f in instances_of(prog, c):
                line_refs += [full(f, l) for l in cat[c]["req"] + cat[c]["opt"]]
                input_refs += [full(f, i) for i in cat[c]["inputs"]]
        hazard_lines = ["a.99", "z.1"] if self.hazards else []
        hazard_inputs = ["a.nope", "z.in"] if self.hazards else []
        for c in cnames:
            own_l = cat[c]["req"] + cat[c]["opt"]
            own_i = cat[c]["inputs"]
            for l in own_l:
                cat[c]["body"][l] = self.tree(self.depth, own_l, own_i, line_refs, input_refs, hazard_lines, hazard_inputs, cnames, prog)
                if l in cat[c]["enum"]:
                    cat[c]["body"][l] = self.blanks(cat[c]["body"][l])
        # request
        reqs = [r.choice(instances_of(prog, "a"))]
        if len(cnames) > 1 and r.random() < 0.35:
            reqs.append(r.choice(instances_of(prog, r.choice(cnames[1:]))))
        if self.hazards and r.random() < 0.04:
            reqs.append("z")
        if r.random() < 0.05:
            reqs.append(reqs[0])              # the same form requested twice
        r.shuffle(reqs)
        prog["request"] = reqs
        # s.form(f) is only well-defined for a form that is certainly loaded: the requested ones (loaded before any attempt).
        # For any other form it raises KeyError or not depending on what happened to be attempted before -- an abort that
        # the shipped forms avoid (they only ever name Form 1040, from forms reached through it).
        def prune(t):
            if t["k"] == "fo":
                return prune(t["b"]) if t["f"] not in reqs else {"k": "fo", "f": t["f"], "b": prune(t["b"])}
            if "br" in t:
                t["br"] = [prune(b) for b in t["br"]]
            return t
        for c in cnames:
            for l in list(cat[c]["body"]):
                cat[c]["body"][l] = prune(cat[c]["body"][l])
        if r.random() < 0.2:
            cands = [n for n in line_refs if n.split(".")[0] in reqs]
            if cands:
                prog["fieldNames"] = [r.choice(cands)]
        return prog

    def blanks(self, t):
        """an enumeration line is often blank"""
        if t["k"] == "ret" and self.r.random() < 0.5:
            return {"k": "none"}
        if "br" in t:
            t["br"] = [self.blanks(b) for b in t["br"]]
        if "b" in t:
            t["b"] = self.blanks(t["b"])
        return t

    def tree(self, depth, own_l, own_i, line_refs, input_refs, hz_l, hz_i, cnames, prog):
        r = self.r
        if depth == 0 or r.random() < 0.18:
            x = r.random()
            if x < 0.55:
                return {"k": "ret", "e": "acc", "c": 0}
            if x < 0.75:
                return {"k": "ret", "e": "const", "c": r.randint(0, 1)}
            if x < 0.83:
                return {"k": "none"}
            if x < 0.95:
                return {"k": "unimpl"}
            return {"k": "raise"} if self.hazards else {"k": "unimpl"}
        x = r.random()
        sub = lambda: self.tree(depth - 1, own_l, own_i, line_refs, input_refs, hz_l, hz_i, cnames, prog)
        br = lambda: [sub()] if r.random() < 0.4 else [sub(), sub()]
        if self.with_fo and x < 0.08:
            return {"k": "fo", "f": r.choice([f for c in cnames for f in instances_of(prog, c)]), "b": sub()}
        if x < 0.45:
            pool = []
            if own_i:
                pool += own_i * 3          # relative names, resolved by FormAccessor
            pool += input_refs
            if hz_i and r.random() < 0.07:
                pool = hz_i
            if pool:
                return {"k": "in", "n": r.choice(pool), "br": br()}
        pool = list(own_l) * 2 + line_refs
        if hz_l and r.random() < 0.07:
            pool = hz_l
        via = r.random()
        node = {"k": "ln", "n": r.choice(pool), "br": br()}
        if via < 0.08:
            node["via"] = "get"          # v.get(name, 0): the accessor is a Mapping; still a demand for the line
        elif via < 0.12:
            node["via"] = "in"           # `name in v`
            node["br"] = node["br"][:1]
        return node


HANDMADE = [
    # self-reference
    {"catalogue": {"a": {"instances": None, "inputs": [], "req": ["1"], "opt": [],
                         "body": {"1": {"k": "ln", "n": "1", "br": [{"k": "ret", "e": "acc", "c": 0}]}}}},
     "unknown": ["z"], "request": ["a"], "fieldNames": []},
    # two-cycle across forms, one side optional
    {"catalogue": {"a": {"instances": None, "inputs": ["x"], "req": ["1"], "opt": ["2"],
                         "body": {"1": {"k": "ln", "n": "b.1", "br": [{"k": "ret", "e": "acc", "c": 0}]},
                                  "2": {"k": "in", "n": "x", "br": [{"k": "ret", "e": "acc", "c": 0}]}}},
                   "b": {"instances": None, "inputs": [], "req": [], "opt": ["1"],
                         "body": {"1": {"k": "ln", "n": "a.1", "br": [{"k": "ret", "e": "acc", "c": 0}]}}}},
     "unknown": ["z"], "request": ["a"], "fieldNames": []},
    # a required line also requested explicitly (queued twice)
    {"catalogue": {"a": {"instances": None, "inputs": ["x"], "req": ["1", "2"], "opt": [],
                         "body": {"1": {"k": "ln", "n": "2", "br": [{"k": "ret", "e": "acc", "c": 0}]},
                                  "2": {"k": "in", "n": "x", "br": [{"k": "ret", "e": "acc", "c": 0}]}}}},
     "unknown": ["z"], "request": ["a"], "fieldNames": ["a.1"]},
    # unimplemented only on one branch; late-discovered dependency on an instanced form
    {"catalogue": {"a": {"instances": None, "inputs": ["x", "y"], "req": ["1", "10"], "opt": ["2"],
                         "body": {"1": {"k": "in", "n": "x", "br": [{"k": "ln", "n": "b:1.1", "br": [{"k": "ret", "e": "acc", "c": 0}]}, {"k": "unimpl"}]},
                                  "10": {"k": "ln", "n": "2", "br": [{"k": "ret", "e": "acc", "c": 0}]},
                                  "2": {"k": "in", "n": "y", "br": [{"k": "none"}, {"k": "ret", "e": "const", "c": 1}]}}},
                   "b": {"instances": ["0", "1"], "inputs": ["w"], "req": ["2"], "opt": ["1"],
                         "body": {"1": {"k": "in", "n": "w", "br": [{"k": "ret", "e": "acc", "c": 0}]},
                                  "2": {"k": "in", "n": "a.x", "br": [{"k": "ret", "e": "acc", "c": 0}]}}}},
     "unknown": ["z"], "request": ["a"], "fieldNames": []},
    # reads another form's input only (input-only load), unknown form behind a branch
    {"catalogue": {"a": {"instances": None, "inputs": [], "req": ["1"], "opt": [],
                         "body": {"1": {"k": "in", "n": "b.x", "br": [{"k": "ret", "e": "acc", "c": 0}, {"k": "ln", "n": "z.1", "br": [{"k": "ret", "e": "acc", "c": 0}]}]}}},
                   "b": {"instances": None, "inputs": ["x"], "req": ["1"], "opt": [],
                         "body": {"1": {"k": "ret", "e": "const", "c": 1}}}},
     "unknown": ["z"], "request": ["a"], "fieldNames": []},
    # a cycle through OPTIONAL lines of a form that is already loaded (each is demanded by a line, never required)
    {"catalogue": {"a": {"instances": None, "inputs": [], "req": ["1", "10"], "opt": ["2", "3"],
                         "body": {"1": {"k": "ln", "n": "2", "br": [{"k": "ret", "e": "acc", "c": 0}]},
                                  "10": {"k": "ln", "n": "3", "br": [{"k": "ret", "e": "acc", "c": 0}]},
                                  "2": {"k": "ln", "n": "2", "br": [{"k": "ret", "e": "acc", "c": 0}]},
                                  "3": {"k": "ln", "n": "2", "br": [{"k": "ln", "n": "3", "br": [{"k": "ret", "e": "acc", "c": 0}]}]}}}},
     "unknown": ["z"], "request": ["a"], "fieldNames": []},
    # an optional line with many users (it must still be evaluated once)
    {"catalogue": {"a": {"instances": None, "inputs": ["x"], "req": ["10", "12", "7", "3"], "opt": ["1b"],
                         "body": {"10": {"k": "ln", "n": "1b", "br": [{"k": "ret", "e": "acc", "c": 0}]},
                                  "12": {"k": "ln", "n": "1b", "br": [{"k": "ret", "e": "acc", "c": 0}]},
                                  "7": {"k": "ln", "n": "1b", "br": [{"k": "ret", "e": "acc", "c": 0}]},
                                  "3": {"k": "ln", "n": "1b", "br": [{"k": "ret", "e": "acc", "c": 0}]},
                                  "1b": {"k": "in", "n": "x", "br": [{"k": "ret", "e": "acc", "c": 0}]}}}},
     "unknown": ["z"], "request": ["a"], "fieldNames": []},
    # a line read through the Mapping API (v.get) that turns out unimplemented
    {"catalogue": {"a": {"instances": None, "inputs": [], "req": ["1"], "opt": ["2"],
                         "body": {"1": {"k": "ln", "via": "get", "n": "2", "br": [{"k": "ret", "e": "acc", "c": 0}]},
                                  "2": {"k": "unimpl"}}}},
     "unknown": ["z"], "request": ["a"], "fieldNames": []},
    # two lines whose names have the same natural-order key (punctuation is ignored by it)
    {"catalogue": {"a": {"instances": None, "inputs": ["x"], "req": ["2a", "2_a", "1"], "opt": [],
                         "body": {"2a": {"k": "ret", "e": "const", "c": 1},
                                  "2_a": {"k": "in", "n": "x", "br": [{"k": "ret", "e": "acc", "c": 0}, {"k": "unimpl"}]},
                                  "1": {"k": "ret", "e": "const", "c": 0}}}},
     "unknown": ["z"], "request": ["a"], "fieldNames": []},
    # a blank enumeration line (stored as None) read by a chain of lines
    {"catalogue": {"a": {"instances": None, "inputs": ["x"], "req": ["3"], "opt": ["1", "2"], "enum": ["2"],
                         "body": {"3": {"k": "ln", "n": "1", "br": [{"k": "ret", "e": "acc", "c": 0}]},
                                  "1": {"k": "ln", "n": "2", "br": [{"k": "ret", "e": "const", "c": 1}, {"k": "unimpl"}]},
                                  "2": {"k": "in", "n": "x", "br": [{"k": "none"}, {"k": "ret", "e": "const", "c": 1}]}}}},
     "unknown": ["z"], "request": ["a"], "fieldNames": []},
    # an unimplemented line next to lines that still need inputs (asked for in two rounds): the questions must not stop
    {"catalogue": {"a": {"instances": None, "inputs": ["x", "y"], "req": ["1", "2", "3"], "opt": [],
                         "body": {"1": {"k": "unimpl"},
                                  "2": {"k": "in", "n": "x", "br": [{"k": "ret", "e": "acc", "c": 0}]},
                                  "3": {"k": "ln", "n": "2", "br": [{"k": "in", "n": "y", "br": [{"k": "ret", "e": "acc", "c": 0}]}]}}}},
     "unknown": ["z"], "request": ["a"], "fieldNames": []},
    # a form first needed for an input only and then for a line (or the other way round, depending on the order):
    # its required line must be computed either way
    {"catalogue": {"a": {"instances": None, "inputs": [], "req": ["1", "2"], "opt": [],
                         "body": {"1": {"k": "in", "n": "b.x", "br": [{"k": "ret", "e": "acc", "c": 0}]},
                                  "2": {"k": "ln", "n": "b.1", "br": [{"k": "ret", "e": "acc", "c": 0}]}}},
                   "b": {"instances": None, "inputs": ["x"], "req": ["2"], "opt": ["1"],
                         "body": {"1": {"k": "ret", "e": "const", "c": 1}, "2": {"k": "ret", "e": "const", "c": 0}}}},
     "unknown": ["z"], "request": ["a"], "fieldNames": []},
    # one line reads y only, another reads x and then y: with a [DEFAULT] section that supplies y, y turns readable the moment
    # the answer for x creates the section (C03: nothing may be computed from a value that is about to be replaced)
    {"catalogue": {"a": {"instances": None, "inputs": ["x", "y"], "req": ["1", "2"], "opt": [],
                         "body": {"1": {"k": "in", "n": "y", "br": [{"k": "ret", "e": "acc", "c": 0}]},
                                  "2": {"k": "in", "n": "x", "br": [{"k": "in", "n": "y", "br": [{"k": "ret", "e": "acc", "c": 0}]}]}}}},
     "unknown": ["z"], "request": ["a"], "fieldNames": []},
    # one line reads inputs of TWO other forms, neither loaded before; the second input is usually already in the file
    {"catalogue": {"a": {"instances": None, "inputs": [], "req": ["1"], "opt": [],
                         "body": {"1": {"k": "in", "n": "b.x", "br": [{"k": "in", "n": "c.y", "br": [{"k": "ret", "e": "acc", "c": 0}]}]}}},
                   "b": {"instances": None, "inputs": ["x"], "req": [], "opt": ["1"], "body": {"1": {"k": "ret", "e": "const", "c": 1}}},
                   "c": {"instances": None, "inputs": ["y"], "req": [], "opt": ["1"], "body": {"1": {"k": "ret", "e": "const", "c": 0}}}},
     "unknown": ["z"], "request": ["a"], "fieldNames": []},
    # a required line reads a required line that turns out unimplemented and is tried FIRST (it sorts higher): the reader
    # must still be reported as blocked behind it
    {"catalogue": {"a": {"instances": None, "inputs": [], "req": ["1", "7"], "opt": [],
                         "body": {"1": {"k": "ln", "n": "7", "br": [{"k": "ret", "e": "acc", "c": 0}]},
                                  "7": {"k": "unimpl"}}}},
     "unknown": ["z"], "request": ["a"], "fieldNames": []},
    # the same form requested twice
    {"catalogue": {"a": {"instances": None, "inputs": ["x"], "req": ["1"], "opt": [],
                         "body": {"1": {"k": "in", "n": "x", "br": [{"k": "ret", "e": "acc", "c": 0}]}}}},
     "unknown": ["z"], "request": ["a", "a"], "fieldNames": []},
    # ... and the required line of that form that nobody reads is unimplemented: the return is NOT solved, in either order
    {"catalogue": {"a": {"instances": None, "inputs": [], "req": ["1", "2"], "opt": [],
                         "body": {"1": {"k": "in", "n": "b.x", "br": [{"k": "ret", "e": "acc", "c": 0}]},
                                  "2": {"k": "ln", "n": "b.1", "br": [{"k": "ret", "e": "acc", "c": 0}]}}},
                   "b": {"instances": None, "inputs": ["x"], "req": ["2"], "opt": ["1"],
                         "body": {"1": {"k": "ret", "e": "const", "c": 1}, "2": {"k": "unimpl"}}}},
     "unknown": ["z"], "request": ["a"], "fieldNames": []},
    # inputs read through the Mapping API of the accessor (`x in i`, `i.get(x, 0)`): still reads -- an absent input is MISSING, not "not there";
    # line 2 makes the solver ask for x after line 1 has been tried
    {"catalogue": {"a": {"instances": None, "inputs": ["x", "y"], "req": ["1", "2", "3"], "opt": [],
                         "body": {"1": {"k": "in", "via": "in", "n": "x", "br": [{"k": "ret", "e": "acc", "c": 0}]},
                                  "2": {"k": "in", "n": "x", "br": [{"k": "in", "n": "y", "br": [{"k": "ret", "e": "acc", "c": 0}]}]},
                                  "3": {"k": "in", "via": "get", "n": "y", "br": [{"k": "ret", "e": "acc", "c": 0}]}}}},
     "unknown": ["z"], "request": ["a"], "fieldNames": []},
]


def generate(n, seed_, **kw):
    rng = random.Random(seed_)
    g = Gen(rng, **kw)
    out = []
    for k, h in enumerate(HANDMADE):
        p = dict(h)
        p["id"] = k + 1
        out.append(p)
    # n counts the RANDOM programs: adding a hand-written one must not push a random one out (the kept seeded changes
    # are re-checked against this family)
    while len(out) < n + len(HANDMADE):
        out.append(g.program(len(out) + 1))
    return out


# ---------------------------------------------------------------------------------------------
# real Form classes

def plain_value(v):
    """abstract value (0/1) of what a generated form stored or printed for a line"""
    if v is None or v == "":
        return 0
    if getattr(type(v), "_hv_bit", False):
        return v.value
    if isinstance(v, str) and v.startswith("Bit."):
        return {"Bit.ZERO": 0, "Bit.ONE": 1}[v]
    return int(v)


def build_forms(prog):
    """-> list of habutax Form subclasses implementing the program (imports habutax lazily)"""
    from habutax.form import Form
    import enum
    from habutax.inputs import IntegerInput
    from habutax.fields import IntegerField, EnumField

    class Bit(enum.Enum):
        ZERO = 0
        ONE = 1
    Bit._hv_bit = True

    def plain(val):
        return 0 if val is None else (val.value if isinstance(val, Bit) else val)

    def as_bit(fn):
        def g(s, i, v):
            out = fn(s, i, v)
            return None if out is None else Bit(out)
        return g

    def interp(tree):
        def fn(s, i, v):
            t, acc = tree, 0
            while True:
                k = t["k"]
                if k == "ln" and t.get("via") == "get":
                    val = plain(v.get(t["n"], 0))
                    acc = (acc + val) % 2
                    t = t["br"][0 if len(t["br"]) == 1 else val]
                elif k == "ln" and t.get("via") == "in":
                    val = 1 if (t["n"] in v) else 0      # always present once the line has been computed
                    val = plain(v[t["n"]]) if val else 0
                    acc = (acc + val) % 2
                    t = t["br"][0]
                elif k == "in" and t.get("via") == "in":
                    val = plain(i[t["n"]]) if (t["n"] in i) else 0      # (an absent input raises from the membership test itself)
                    acc = (acc + val) % 2
                    t = t["br"][0]
                elif k == "in" and t.get("via") == "get":
                    val = plain(i.get(t["n"], 0))
                    acc = (acc + val) % 2
                    t = t["br"][0 if len(t["br"]) == 1 else val]
                elif k == "in" or k == "ln":
                    val = plain((i if k == "in" else v)[t["n"]])
                    acc = (acc + val) % 2
                    t = t["br"][0 if len(t["br"]) == 1 else val]
                elif k == "fo":
                    s.form(t["f"])
                    t = t["b"]
                elif k == "ret":
                    return acc if t["e"] == "acc" else t["c"]
                elif k == "none":
                    return None
                elif k == "unimpl":
                    s.not_implemented()
                elif k == "raise":
                    raise RuntimeError("program raise")
                else:
                    raise AssertionError(k)
        return fn

    classes = []
    for cname, d in prog["catalogue"].items():
        def make(cname=cname, d=d):
            class GenForm(Form):
                form_name = cname
                tax_year = 1970
                description = "Generated form " + cname
                long_description = "generated"

                def __init__(self, **kwargs):
                    inputs = [IntegerInput(n, description="input " + n) for n in d["inputs"]]
                    en = d.get("enum", [])
                    mk = lambda l: EnumField(l, Bit, as_bit(interp(d["body"][l]))) if l in en else IntegerField(l, interp(d["body"][l]))
                    req = [mk(l) for l in d["req"]]
                    opt = [mk(l) for l in d["opt"]]
                    super().__init__(GenForm, inputs, req, opt, **kwargs)
                    import tracer
                    tracer.BLANK_OK.update("%s.%s" % (self.name(), l) for l in en)

                def needs_filing(self, values):
                    return False
            if d.get("instances"):
                GenForm.valid_instances = list(d["instances"])
            GenForm.__name__ = "GenForm_" + cname
            return GenForm
        classes.append(make())
    return classes
