"""Checks that judge the CONTENT of explored returns with TLC evaluating a TLA+ oracle module:
C15 (Balance.tla) ...  (DESIGN 3.7, section 6)"""
import json
import os
import re
from decimal import Decimal

import common
import real_checks
import scenarios


def line_types(year):
    """{full line name pattern (form base, line): (type name, places)} for a year, by introspection"""
    import habutax.forms as F
    out = {}
    for cls in F.available_forms[year]:
        inst = cls.valid_instances[0] if hasattr(cls, "valid_instances") else None
        try:
            f = cls(instance=inst)
        except Exception:     # noqa  (C17 reports it)
            continue
        for x in f.fields():
            out[(cls.form_name, x.base_name())] = (type(x).__name__, getattr(x, "_places", None))
    return out


_LT = {}


def numeric_solution(year, values):
    """solution strings -> (S cents, R ratios*1e5, formOf, lineOf) for numeric lines"""
    if year not in _LT:
        _LT[year] = line_types(year)
    lt = _LT[year]
    S, R, form_of, line_of = {}, {}, {}, {}
    for name, text in values.items():
        form, line = name.split(".", 1)
        fb = form.split(":")[0]
        t = lt.get((fb, line))
        if t is None:
            continue
        tn, places = t
        if tn == "FloatField":
            d = Decimal(text)
            if places is not None and places > 2:
                R[name] = int((d * 100000).to_integral_value())
            else:
                c = int((d * 100).to_integral_value())
                if abs(c) < 2 ** 31 - 1:
                    S[name] = c
        elif tn == "IntegerField":
            v = int(text) * 100          # whole numbers (counts, whole-dollar amounts) in hundredths like every other line
            if abs(v) < 2 ** 31 - 1:
                S[name] = v
        else:
            continue
        form_of[name] = fb
        line_of[name] = line
    return S, R, form_of, line_of


def run_oracle(module, envvar, payload, work, prefix, timeout=1800):
    path = os.path.join(work, "in.json")
    with open(path, "w") as f:
        json.dump(payload, f)
    cfgp = os.path.join(work, "o.cfg")
    with open(cfgp, "w") as f:
        f.write("SPECIFICATION Spec\nCHECK_DEADLOCK FALSE\n")
    res = common.run_tlc(os.path.join(common.SPEC, module + ".tla"), cfgp, cwd=work, workers=1, env={envvar: path}, timeout=timeout)
    rows = []
    for m in re.finditer(r'^"%s\|(.*)\|"$' % prefix, res.out, re.M):
        rows.append(m.group(1).split("|"))
    if res.rc != 0:
        raise common.MachineryError("%s.tla failed (rc=%s)\n%s" % (module, res.rc, res.error_excerpt(40)))
    return rows, res


def c15(tier):
    rep = common.Reporter("C15", tier)
    sd = common.seed()
    scs = real_checks.explore(tier, sd, per_year=(40 if tier == "quick" else 600), replays=False)
    # returns that ALMOST balance: the withholding of a solved return is moved so that it underpays / overpays by a few cents, or
    # comes out exactly even (rules like "you need not pay less than a dollar" live at this edge)
    near = []
    per_year_near = {}
    for sc in scs:
        r = sc["res"]
        if r["abort"] or not r.get("solved") or "w-2:0.box_2" not in sc["given"]:
            continue
        if per_year_near.get(sc["year"], 0) >= (2 if tier == "quick" else 25):
            continue
        try:
            tax, paid, w = float(r["values"]["1040.24"]), float(r["values"]["1040.33"]), float(sc["given"]["w-2:0.box_2"] or 0)
        except (KeyError, ValueError):
            continue
        per_year_near[sc["year"]] = per_year_near.get(sc["year"], 0) + 1
        for off in (-0.40, -0.99, 0.0, 0.40):
            w2 = round(w + (tax - paid) + off, 2)
            if w2 < 0:
                continue
            g2 = dict(sc["given"])
            g2["w-2:0.box_2"] = "%.2f" % w2
            res2, ans2 = _resolve(sc["year"], sc["request"], g2, "near-%s-%s" % (sc["sid"], off))
            near.append({"year": sc["year"], "request": sc["request"], "given": dict(ans2.given), "res": res2, "sid": "%s/near%+.2f" % (sc["sid"], off)})
    scs = list(scs) + near
    sols, byid = [], {}
    for k, sc in enumerate(scs):
        r = sc["res"]
        if r["abort"] or not r.get("solved"):
            continue
        S, R, fo, lo = numeric_solution(sc["year"], r["values"])
        oid = len(sols) + 1
        sols.append({"oid": oid, "year": sc["year"], "S": S, "R": R, "formOf": fo, "lineOf": lo})
        byid[oid] = sc
    work = common.mkwork()
    try:
        rows, res = run_oracle("Balance", "HV_SOL_FILE", {"sols": sols}, work, "BAL") if sols else ([], None)
    finally:
        common.rmwork(work)
    if len(rows) != len(sols):
        raise common.MachineryError("Balance.tla judged %d of %d solutions" % (len(rows), len(sols)))
    nneg = 0
    for row in rows:
        oid, bal, neg, ratio = int(row[0]), row[1], row[2], row[3]
        sc = byid[oid]
        replay = {"kind": "scenario", "year": sc["year"], "request": sc["request"], "given": sc["given"]}
        if bal:
            rep.violation("balance:%d:%s" % (sc["year"], bal), bal + " in " + sc["sid"], replay)
        for n in re.findall(r'"([^"\\]+)\\?"', neg):
            base = re.sub(r":[^.]*\.", ".", n)
            rep.violation("negative:%d:%s" % (sc["year"], base), "line %s is negative in solved return %s: %s" % (n, sc["sid"], sc["res"]["values"].get(n)), replay)
            nneg += 1
        for n in re.findall(r'"([^"\\]+)\\?"', ratio):
            base = re.sub(r":[^.]*\.", ".", n)
            rep.violation("ratio:%d:%s" % (sc["year"], base), "ratio %s outside [0,1] in %s" % (n, sc["sid"]), replay)
    cov = {"evaluations": len(scs), "distinct_nontrivial": len(sols),
           "rule": "scenario explorer returns (seeded profiles x 3 years, with/without NC); non-trivial = the return solved, so the balance formulas apply",
           "samples": [{"year": byid[1]["year"], "request": byid[1]["request"], "lines": {k: byid[1]["res"]["values"][k] for k in list(byid[1]["res"]["values"])[:12]}}] if sols else [{"none": True}],
           "solved_returns_judged": len(sols), "nearly_balanced_variants": len(near), "nc_returns_judged": sum(1 for s in sols if "nc_d-400.19" in s["S"]),
           "by_year": {str(y): sum(1 for s in sols if s["year"] == y) for y in scenarios.YEARS},
           "states": (res.distinct if res else 0), "explanation": "TLC evaluates Balance.tla (balance equations, exclusivity, sign constraints) on every solved explored return"}
    return rep, "exploration", cov, ["amounts are explored below $10M so that cents fit TLC's 32-bit integers", "non-negative line list is a reviewed transcription (Balance.tla NonNegLines/NonNegForms)"]


# ---------------------------------------------------------------------------------------------
# C16 metamorphic relations

def _resolve(year, request, given, seed_key):
    """solve with exactly the given inputs (new demands are answered by a seeded answerer) -> result"""
    import random
    rng = random.Random(seed_key)
    p = scenarios.Profile(rng, year=year)
    tr, res, solver, ans = scenarios.solve_scenario(year, request, p, rng, overrides=dict(given), snap="none")
    return res, ans


DECLARED_1040 = {}


def c16(tier):
    import itertools
    import random
    rep = common.Reporter("C16", tier)
    sd = common.seed()
    scs = real_checks.explore(tier, sd, per_year=(30 if tier == "quick" else 400), replays=False)
    # plain returns in which every payer form has a DIFFERENT number of copies and every copy different amounts
    # (a per-payer loop that runs over another form's count only shows then)
    for year in scenarios.YEARS:
        for k, counts in enumerate(({"w-2": 2, "1099-int": 1, "1099-div": 3, "1099-r": 0, "1099-g": 0, "1098": 0},
                                    {"w-2": 3, "1099-int": 2, "1099-div": 1, "1099-r": 0, "1099-g": 0, "1098": 0})):
            r2 = random.Random("c16-dir-%d-%d-%d" % (year, k, sd))
            p = scenarios.Profile(r2, year=year, nc=False, status="Single", dependents=0, itemize=False, sched1_adjust=False, wage_scale=60000,
                                  ira=False, qualified_div=True, foreign_tax=True, hsa_you=False, hsa_spouse=False, f8606=False, div_heavy=False, dup_w2=False,
                                  plain_payers=True)
            p.n = dict(counts, **{"1099-oid": 0})
            ov = {}
            for t, box, amts in (("1099-int", "box_6", ("20.00", "31.00", "7.50")), ("1099-div", "box_7", ("0.00", "120.00", "45.50")),
                                 ("1099-int", "box_1", ("410.00", "95.00", "1200.00")), ("1099-div", "box_1a", ("3100.00", "800.00", "150.00")),
                                 ("1099-div", "box_1b", ("2000.00", "300.00", "0.00")), ("w-2", "box_2", ("9000.00", "700.00", "2100.00"))):
                for n in range(counts[t]):
                    ov["%s:%d.%s" % (t, n, box)] = amts[n]
            tr, res, solver, ans = scenarios.solve_scenario(year, ["1040"], p, r2, overrides=ov, snap="none")
            scs.append({"year": year, "request": ["1040"], "profile": p.describe(), "given": dict(ans.given), "kinds": dict(ans.kinds),
                        "trace": tr, "res": res, "variants": [], "sid": "%d/dir%d" % (year, k)})
    pairs, meta = [], {}
    nbase = 0
    near_done = {}
    nc_done = {}
    rng = random.Random(1234 + sd)
    listing_re = re.compile(r"^1040_sb\.[15]_(payer|amount)_\d+$")
    for sc in scs:
        r = sc["res"]
        if r["abort"] or not r.get("solved"):
            continue
        nbase += 1
        year, request, given = sc["year"], sc["request"], sc["given"]
        A_text = r["values"]
        A_num = numeric_solution(year, A_text)[0]

        def add_pair(kind, delta, B_res, extra, Bmap=None):
            if B_res["abort"] or not B_res.get("solved"):
                return
            pid = len(pairs) + 1
            if kind == "renumber":
                B = Bmap
                listing = sorted(n for n in set(A_text) | set(B) if listing_re.match(n))
                pairs.append({"pid": pid, "kind": kind, "delta": 0, "A": A_text, "B": B, "listing": listing})
            else:
                keep = ("1040.24", "1040.34", "1040.37")
                Bn = numeric_solution(year, B_res["values"])[0]
                pairs.append({"pid": pid, "kind": kind, "delta": delta, "A": {k: A_num[k] for k in keep if k in A_num},
                              "B": {k: Bn[k] for k in keep if k in Bn}, "listing": []})
            meta[pid] = {"kind": kind, "year": year, "request": request, "given": given, "change": extra, "sid": sc["sid"]}

        # renumbering the copies of a payer form
        for t in ("w-2", "1099-int", "1099-div", "1099-r", "1099-g", "1098"):
            n = int(given.get("1040.number_" + t, "0") or 0)
            if n < 2 or n > 3:
                continue
            perms = [p for p in itertools.permutations(range(n)) if list(p) != list(range(n))]
            if tier == "quick":
                perms = perms[:2]
            for perm in perms:
                g2 = {}
                for k, v in given.items():
                    m = re.match(r"^%s:(\d+)\.(.*)$" % re.escape(t), k)
                    if m and int(m.group(1)) < n:
                        g2["%s:%d.%s" % (t, perm[int(m.group(1))], m.group(2))] = v
                    else:
                        g2[k] = v
                res2, _a = _resolve(year, request, g2, "rn%s" % sc["sid"])
                inv = {perm[i]: i for i in range(n)}
                Bmap = {}
                for k, v in res2.get("values", {}).items():
                    m = re.match(r"^%s:(\d+)\.(.*)$" % re.escape(t), k)
                    if m and int(m.group(1)) in inv:
                        Bmap["%s:%d.%s" % (t, inv[int(m.group(1))], m.group(2))] = v
                    else:
                        Bmap[k] = v
                add_pair("renumber", 0, res2, {"form": t, "perm": list(perm)}, Bmap)
        # increments
        def bump(name, delta):
            g2 = dict(given)
            g2[name] = "%.2f" % (float(given[name] or 0) + delta)
            return g2
        deltas = [1.0, 100.0, 5000.0] if tier == "quick" else [0.01, 1.0, 37.5, 100.0, 1000.0, 5000.0, 40000.0]
        if "w-2:0.box_1" in given:
            for d in deltas:
                res2, _a = _resolve(year, request, bump("w-2:0.box_1", d), "w%s" % sc["sid"])
                add_pair("wages", int(round(d * 100)), res2, {"input": "w-2:0.box_1", "delta": d})
        if "w-2:0.box_2" in given:
            for d in deltas:
                res2, _a = _resolve(year, request, bump("w-2:0.box_2", d), "h%s" % sc["sid"])
                add_pair("withheld", int(round(d * 100)), res2, {"input": "w-2:0.box_2", "delta": d})
        # around the point where the return just balances: withholding a few cents short of the tax, and one dollar more
        if "w-2:0.box_2" in given and near_done.get(year, 0) < (2 if tier == "quick" else 25):
            near_done[year] = near_done.get(year, 0) + 1
            try:
                tax0, paid0, w0 = float(A_text["1040.24"]), float(A_text["1040.33"]), float(given["w-2:0.box_2"] or 0)
                wn = round(w0 + (tax0 - paid0) - 0.50, 2)
            except (KeyError, ValueError):
                wn = -1.0
            if wn >= 0:
                gA = dict(given)
                gA["w-2:0.box_2"] = "%.2f" % wn
                gB = dict(given)
                gB["w-2:0.box_2"] = "%.2f" % (wn + 1.0)
                rA, _a = _resolve(year, request, gA, "nbA%s" % sc["sid"])
                rB, _b = _resolve(year, request, gB, "nbB%s" % sc["sid"])
                if not rA["abort"] and not rB["abort"] and rA.get("solved") and rB.get("solved"):
                    keep = ("1040.24", "1040.34", "1040.37")
                    An, Bn = numeric_solution(year, rA["values"])[0], numeric_solution(year, rB["values"])[0]
                    pid2 = len(pairs) + 1
                    pairs.append({"pid": pid2, "kind": "withheld", "delta": 100, "A": {k: An[k] for k in keep if k in An},
                                  "B": {k: Bn[k] for k in keep if k in Bn}, "listing": []})
                    meta[pid2] = {"kind": "withheld", "year": year, "request": request, "given": gA,
                                  "change": {"input": "w-2:0.box_2", "delta": 1.0, "nearly_balanced": True}, "sid": sc["sid"]}
        # every other place where federal income tax withheld is entered: box 4 of the 1099 forms, other withholding
        # (other withholding is part of line 25c on every return: if the return did not even ask for it, it counts as 0 before)
        declared = DECLARED_1040.setdefault(year, set(x.base_name() for c in __import__("habutax.forms", fromlist=["x"]).available_forms[year] if c.form_name == "1040" for x in c().inputs()))
        for name in sorted(set(k3 for k3 in given if re.match(r"^1099-(r|div|int|g):\d+\.box_4$", k3)) |
                           ({"1040.other_federal_withholding"} if "other_federal_withholding" in declared else set())):
            for d in deltas[:2]:
                try:
                    g2 = dict(given)
                    g2[name] = "%.2f" % (float(given.get(name) or 0) + d)
                except ValueError:
                    continue
                res2, _a = _resolve(year, request, g2, "o%s" % sc["sid"])
                add_pair("withheld", int(round(d * 100)), res2, {"input": name, "delta": d})
        # N.C. income tax withheld (every state row of a payer form that names NC): all such amounts brought to whole dollars first, then one of
        # them raised by 1, 3 and 100 dollars -- the N.C. overpayment minus tax due moves by exactly that much, whoever owns the payer form
        if "nc_d-400" in request and nc_done.get(year, 0) < (6 if tier == "quick" else 60):
            import math
            rows_nc = [("w-2", "box_15", "box_17"), ("1099-g", "box_10a_1", "box_11_1"), ("1099-g", "box_10a_2", "box_11_2"), ("1099-int", "box_15_1", "box_17_1"),
                       ("1099-int", "box_15_2", "box_17_2"), ("1099-div", "box_14_1", "box_16_1"), ("1099-div", "box_14_2", "box_16_2"),
                       ("1099-r", "box_14_1_state", "box_14_1"), ("1099-r", "box_14_2_state", "box_14_2")]
            ncboxes = []
            for k3, v3 in given.items():
                m3 = re.match(r"^([a-z0-9-]+):(\d+)\.(.+)$", k3)
                if not m3:
                    continue
                for (t3, sbox, abox) in rows_nc:
                    if m3.group(1) == t3 and m3.group(3) == sbox and str(v3).strip().split(".")[-1] == "NC" and ("%s:%s.%s" % (t3, m3.group(2), abox)) in given:
                        ncboxes.append("%s:%s.%s" % (t3, m3.group(2), abox))
            try:
                gA = dict(given)
                for b3 in ncboxes:
                    gA[b3] = "%.2f" % math.floor(float(given[b3] or 0))
            except ValueError:
                ncboxes = []
            if ncboxes:
                nc_done[year] = nc_done.get(year, 0) + 1
                rA, _a = _resolve(year, request, gA, "ncA%s" % sc["sid"])
                if not rA["abort"] and rA.get("solved"):
                    keepn = ("nc_d-400.28", "nc_d-400.26a")
                    An = numeric_solution(year, rA["values"])[0]
                    # a payer form owned by both spouses first, then the others
                    ncboxes.sort(key=lambda b3: (str(given.get(b3.split(".")[0] + ".belongs_to", "")).strip().split(".")[-1] != "both", b3))
                    for b3 in ncboxes[:(2 if tier == "quick" else 6)]:
                        for d in (1.0, 3.0, 100.0):
                            gB = dict(gA)
                            gB[b3] = "%.2f" % (float(gA[b3]) + d)
                            rB, _b = _resolve(year, request, gB, "ncB%s" % sc["sid"])
                            if rB["abort"] or not rB.get("solved"):
                                continue
                            Bn = numeric_solution(year, rB["values"])[0]
                            pid2 = len(pairs) + 1
                            pairs.append({"pid": pid2, "kind": "nc-withheld", "delta": int(round(d * 100)), "A": {k4: An[k4] for k4 in keepn if k4 in An},
                                          "B": {k4: Bn[k4] for k4 in keepn if k4 in Bn}, "listing": []})
                            meta[pid2] = {"kind": "nc-withheld", "year": year, "request": request, "given": gA, "change": {"input": b3, "delta": d, "whole_dollar_base": True}, "sid": sc["sid"]}
        # an increment that makes two copies carry exactly the same amount (aggregations must not care)
        for box, kind in (("box_2", "withheld"), ("box_1", "wages")):
            a0, a1 = given.get("w-2:0." + box), given.get("w-2:1." + box)
            if a0 is not None and a1 is not None:
                try:
                    dlt = round(float(a1 or 0) - float(a0 or 0), 2)
                except ValueError:
                    continue
                tgt = "w-2:0." + box if dlt > 0 else "w-2:1." + box
                if abs(dlt) >= 0.01:
                    res2, _a = _resolve(year, request, bump(tgt, abs(dlt)), "eq%s" % sc["sid"])
                    add_pair(kind, int(round(abs(dlt) * 100)), res2, {"input": tgt, "delta": abs(dlt), "makes_copies_equal": True})
        for name in ("1040_sa.charitable_cash_check", "1040_sa.medical_dental_expenses", "1040_sa.other_taxes_amount",
                     "1040_sa.state_local_real_estate_taxes", "1040.charitable_contributions_std_ded", "1040_s1.educator_expenses",
                     "1040_s1.student_loan_interest", "1040_s1.alimony_paid"):
            if name in given and sc["kinds"].get(name) == "FloatInput":
                for d in deltas[:3]:
                    if name == "1040_s1.educator_expenses" and float(given[name] or 0) + d > 250:
                        continue
                    res2, _a = _resolve(year, request, bump(name, d), "d%s" % sc["sid"])
                    add_pair("deduct", int(round(d * 100)), res2, {"input": name, "delta": d})
    work = common.mkwork()
    try:
        rows, res = run_oracle("Metamorphic", "HV_PAIR_FILE", {"pairs": pairs}, work, "META") if pairs else ([], None)
    finally:
        common.rmwork(work)
    if len(rows) != len(pairs):
        raise common.MachineryError("Metamorphic.tla judged %d of %d pairs" % (len(rows), len(pairs)))
    for row in rows:
        pid, msg = int(row[0]), row[1]
        if msg:
            m = meta[pid]
            what = m["change"].get("input") or m["change"].get("form")
            rep.violation("meta:%d:%s:%s:%s" % (m["year"], m["kind"], what, msg[:50]), "%s (%s, base %s, change %s)" % (msg, m["kind"], m["sid"], m["change"]),
                          {"kind": "scenario-pair", "year": m["year"], "request": m["request"], "given": m["given"], "change": m["change"]})
    kinds = {}
    for p in pairs:
        kinds[p["kind"]] = kinds.get(p["kind"], 0) + 1
    cov = {"evaluations": len(pairs), "distinct_nontrivial": len(pairs), "solved_base_returns": nbase, "pairs_by_kind": kinds,
           "rule": "for every solved explored return: all (quick: 2) non-identity permutations of the copies of each payer form with 2-3 copies; "
                   "sampled increments of W-2 box 1, W-2 box 2 and each deductible-expense input present; a pair counts only if both returns solve",
           "samples": [meta[1]["change"], {"kind": meta[1]["kind"], "sid": meta[1]["sid"]}] if pairs else [{"none": True}],
           "explanation": "TLC evaluates Metamorphic.tla on every pair"}
    return rep, "exploration", cov, ["tax amounts below $10M", "listing lines exempt from renumbering equality: Schedule B payer/amount rows"]


# ---------------------------------------------------------------------------------------------
# C09 gates

def _strip_inst(name):
    f, l = name.split(".", 1)
    return f.split(":")[0] + "." + l


def gate_summary(trace, res, gate_inputs, year, oid, limits, answers=None):
    """answers: what the user's inputs SAY (name -> text); when given, the declared answer counts, not what the line was handed"""
    reads = set()
    truthy = ("true", "yes", "y", "1", "on")
    for ev in trace["events"]:
        if ev["ev"] != "attempt":
            continue
        reader = _strip_inst(ev["line"])
        for (k, name, dg) in ev["reads"]:
            if k == "in":
                g = _strip_inst(name)
                if g in gate_inputs:
                    if answers is not None and name in answers and dg in ("True", "False"):
                        dg = "True" if answers[name].strip().lower() in truthy else "False"
                    reads.add((g, dg, reader))
    return {"oid": oid, "year": year, "solved": bool(res.get("solved")) and not res["abort"],
            "reads": [{"g": g, "val": v, "reader": r} for (g, v, r) in sorted(reads)], "limits": limits}


def limit_facts(year, given, res):
    """the three amount limits of the property, judged on the inputs of the run"""
    out = []
    ft = 0.0
    for k, v in given.items():
        if re.match(r"^1099-int:\d+\.box_6$", k) or re.match(r"^1099-div:\d+\.box_7$", k):
            try:
                ft += float(v or 0)
            except ValueError:
                pass
    st = given.get("1040.filing_status", "")
    lim = 600.0 if st == "MarriedFilingJointly" else 300.0
    vals = res.get("values", {})
    s3_demanded = "1040_s3.1" in vals or any(u.startswith("1040_s3.") for u in res.get("unimpl", []))
    out.append({"name": "foreign tax above the Form 1116 election threshold", "exceeded": bool(ft > lim + 0.005 and (s3_demanded or "1040.20" in vals))})
    # HSA: own plus employer contributions against the year's limit (self-only / family, + 1,000 from age 55)
    HSA = {2021: (3600.0, 7200.0), 2022: (3650.0, 7300.0), 2023: (3850.0, 7750.0)}
    over = False
    for who in ("you", "spouse"):
        f = "8889:%s" % who
        if (f + ".hsa_contributions") not in given:
            continue
        try:
            own = float(given.get(f + ".hsa_contributions") or 0)
            emp = float(given.get(f + ".employer_contribution") or 0)
        except ValueError:
            continue
        yes = lambda k: str(given.get(k, "")).strip().lower() in ("yes", "y", "true", "1", "on")
        lim = HSA[year][1 if yes(f + ".hdhp_plan_family") else 0]
        if (f + ".age_under_55") in given and not yes(f + ".age_under_55"):
            lim += 1000.0
        took_part = (f + ".hsa_deduction") in vals or (f + ".13") in vals
        if took_part and own + emp > lim + 0.005:
            over = True
    out.append({"name": "an HSA contribution (own plus employer) above the limit", "exceeded": over})
    def amt(k):
        try:
            return float(given.get(k) or 0)
        except ValueError:
            return 0.0
    yes_ = lambda k: str(given.get(k, "")).strip().lower() in ("yes", "y", "true", "1", "on")
    part = lambda prefix: any(k.startswith(prefix) for k in vals) or any(u.startswith(prefix) for u in res.get("unimpl", []))
    # further amounts that the program does not support beyond a figure (section 7 of DESIGN.md listed them as not decided until round 18)
    roth = False
    for who in ("you", "spouse"):
        f = "8606:%s" % who
        if yes_(f + ".part_3_needed") and all((f + x) in given for x in (".total_nonqualified_distributions", ".qualified_homebuyer", ".roth_ira_contributions_basis")):
            l21 = max(0.0, amt(f + ".total_nonqualified_distributions") - amt(f + ".qualified_homebuyer"))
            if l21 - amt(f + ".roth_ira_contributions_basis") > 0.005 and part(f + "."):
                roth = True
    out.append({"name": "a nonqualified Roth IRA distribution above the contribution basis (Form 8606 line 23 positive: Form 5329 and lines 24-25 are not supported)", "exceeded": roth})
    archer = any(amt("8889:%s.archer_msa" % w) > 0.005 and part("8889:%s." % w) for w in ("you", "spouse"))
    out.append({"name": "Archer MSA contributions (Form 8889 line 4 needs Form 8853)", "exceeded": archer})
    noncash = amt("1040_sa.charitable_other_than_cash_check") > 500.005 and "1040_sa.filling_8283" in given and not yes_("1040_sa.filling_8283") and part("1040_sa.")
    out.append({"name": "gifts other than by cash or check above $500 without Form 8283 (Schedule A line 12)", "exceeded": bool(noncash)})
    # the most any return may deduct: $250 per educator in 2021, $300 from 2022, two educators on a joint return
    edu_max = 500.0 if year == 2021 else 600.0
    out.append({"name": "educator expenses above the most two educators may deduct (Schedule 1 line 11)",
                "exceeded": bool(amt("1040_s1.educator_expenses") > edu_max + 0.005 and (("1040_s1.11" in vals) or "1040_s1.11" in res.get("unimpl", []) or "1040_s1.26" in vals))})
    for t in ("1099-int", "1099-div"):
        n = int(given.get("1040.number_" + t, "0") or 0)
        out.append({"name": "more %s payers than Schedule B has rows" % t, "exceeded": n > 14 and any(k.startswith("1040_sb.") for k in vals)})
    return out


def c09(tier):
    import random
    rep = common.Reporter("C09", tier)
    sd = common.seed()
    cat = json.load(open(os.path.join(common.ROOT, "data", "gates.json")))["gates"]
    gate_inputs = set(g["input"] for g in cat)
    aff = {}
    for g in cat:
        aff.setdefault(g["input"], g["affirmative"])
    scs = real_checks.explore(tier, sd, per_year=(40 if tier == "quick" else 400), replays=False, snap="none")
    per_gate = 2 if tier == "quick" else 12          # solved base returns in which each gate is flipped (per year)
    flips_done = {}
    obs, meta = [], {}
    nflip = 0
    flipped_gates = set()
    nco = [0]
    co_done = set()

    def add(trace, res, year, info, given):
        oid = len(obs) + 1
        obs.append(gate_summary(trace, res, gate_inputs, year, oid, limit_facts(year, given, res)))
        meta[oid] = info

    def flip(sc, g):
        nonlocal nflip
        year, request, given = sc["year"], sc["request"], sc["given"]
        a = aff[_strip_inst(g)]
        text = {"True": "yes", "False": "no"}.get(a, a)
        gform = g.split(".")[0]
        payer_reads = set()        # payer-form amounts that lines of the gate's own form read in the base run
        for ev in sc["trace"]["events"]:
            if ev["ev"] == "attempt" and ev["line"].split(".")[0] == gform:
                for (k3, n3, _d3) in ev["reads"]:
                    if k3 == "ln" and n3.split(".")[0].split(":")[0] in ("1098", "1099-int", "1099-div", "1099-g", "1099-r", "w-2"):
                        payer_reads.add(n3)
        for variant in ("flip", "flip+own-amounts", "flip+own-amounts-no-payer-amounts"):
            ov = dict(given)
            ov[g] = text
            if variant != "flip":
                # the gate may only matter for the form's other amounts: make the form's own zero amounts positive,
                # and (third variant) take the amounts of the payer forms (1098, 1099) away
                touched = False
                for k2, v2 in given.items():
                    if sc["kinds"].get(k2) != "FloatInput":
                        continue
                    f2 = k2.split(".")[0]
                    if f2 == gform and float(v2 or 0) == 0.0:
                        ov[k2] = "300.00"
                        touched = True
                    elif variant.endswith("no-payer-amounts") and k2 in payer_reads:
                        ov[k2] = "0.00"
                        touched = True
                if not touched:
                    continue
            rng = random.Random("flip-%s-%s" % (sc["sid"], g))
            p = scenarios.Profile(rng, year=year)
            tr, res, solver, ans = scenarios.solve_scenario(year, request, p, rng, overrides=ov, snap="none")
            nflip += 1
            flipped_gates.add(_strip_inst(g))
            add(tr, res, year, {"kind": variant, "gate": g, "value": text, "sid": sc["sid"], "year": year, "request": request, "given": dict(ans.given)}, ans.given)
            if variant != "flip":
                continue
            if tier == "quick":
                # (per-change tier: once per year and gate)
                if (year, _strip_inst(g)) in co_done:
                    continue
                co_done.add((year, _strip_inst(g)))
            # the gate may be masked by another answer: every yes/no answer that a line reading the gate ALSO consulted in this run (directly, or
            # through a line it read) is inverted, one at a time -- "late, but with a federal extension" must stop the return like "late" does
            attempts = [ev for ev in tr["events"] if ev["ev"] == "attempt"]
            readers = [ev for ev in attempts if any(k3 == "in" and n3 == g for (k3, n3, _d3) in ev["reads"])]
            co = set()
            for ev in readers:
                for (k3, n3, _d3) in ev["reads"]:
                    if k3 == "in":
                        co.add(n3)
                    elif k3 == "ln":
                        for ev2 in attempts:
                            if ev2["line"] == n3:
                                co.update(n4 for (k4, n4, _d4) in ev2["reads"] if k4 == "in")
            kinds = dict(sc.get("kinds", {}))
            kinds.update(ans.kinds)              # (an answer served from the overrides has no kind recorded in this run)
            co = sorted(c for c in co if c != g and kinds.get(c) == "BooleanInput" and _strip_inst(c) not in gate_inputs and c in ans.given)
            for c in co[:(2 if tier == "quick" else 6)]:
                cur = str(ans.given[c]).strip().lower()
                ov2 = dict(ov)
                ov2[c] = "no" if cur in ("yes", "true", "y", "1") else "yes"
                rng = random.Random("flip-%s-%s" % (sc["sid"], g))
                tr2, res2, _solver2, ans2 = scenarios.solve_scenario(year, request, scenarios.Profile(rng, year=year), rng, overrides=ov2, snap="none")
                nflip += 1
                nco[0] += 1
                add(tr2, res2, year, {"kind": "flip+co-answer %s=%s" % (c, ov2[c]), "gate": g, "value": text, "sid": sc["sid"], "year": year, "request": request,
                                      "given": dict(ans2.given)}, ans2.given)

    for sc in scs:
        year, request, given = sc["year"], sc["request"], sc["given"]
        add(sc["trace"], sc["res"], year, {"kind": "base", "sid": sc["sid"], "year": year, "request": request, "given": given}, given)
        read_gates = set()
        if not sc["res"].get("solved"):
            continue            # a silent success can only show where everything else is fine
        for g in given:
            gb = _strip_inst(g)
            if gb in gate_inputs and (flips_done.get((year, gb), 0) < per_gate or "/d" in sc["sid"]):     # a directed return: every gate it supplies
                read_gates.add(g)
                flips_done[(year, gb)] = flips_done.get((year, gb), 0) + 1
        for g in sorted(read_gates):
            flip(sc, g)
    # directed bases: (year, gate) pairs no solved explored return supplied.  The forcing reader's own paths (forced
    # execution) tell which other yes/no and choice answers lead to the question being asked at all.
    ndirected = 0
    ndirected_ok = 0
    # ... and, with fewer attempts, for every other pair too: a gate that only matters next to particular other answers
    # (both spouses' IRA questions present, say) is not exercised by flipping it on whatever return happened to supply it
    never = set((int(y), g["input"]) for g in cat for y in g["years"] if (int(y), g["input"]) not in flips_done)
    uncovered = [(int(y), g) for g in cat for y in g["years"]]
    line_cache = {}
    if uncovered:
        import pathexplore
        pcat = {}
        for (year, g) in uncovered:
            if year not in pcat:
                pcat[year] = pathexplore.Catalogue(year)
                pathexplore._patch_threshold()
                pathexplore._patch_float(year)
            enablers = []
            for reader in g["forcing_readers"].get(str(year), [])[:2]:
                fname, lname = reader.split(".", 1)
                try:
                    form = pcat[year].form(fname)
                except Exception:     # noqa
                    try:
                        form = pcat[year].form(fname + ":0")
                    except Exception:     # noqa
                        continue
                field = next((x for x in form.fields() if x.base_name() == lname), None)
                if field is None:
                    continue
                if (year, reader) not in line_cache:
                    line_cache[(year, reader)] = pathexplore.explore_line(pcat[year], form, field, max_paths=(400 if tier == "quick" else 2000))
                rec = line_cache[(year, reader)]
                for dec, out in rec["gate_obs"]:
                    # a path on which the question is asked, whatever the answer and the outcome (the CURRENT tree's
                    # outcome must not decide where to look: a gate that stopped working has no "unimplemented" path)
                    keys = [k for k in dec if _strip_inst(k) == g["input"]]
                    if not keys or out.startswith("error") or out.startswith("artifact"):
                        continue
                    others = {k: v for k, v in dec.items() if k not in keys and not k.endswith(".filing_status")}
                    cost = sum(1 for k, v in others.items() if _strip_inst(k) in gate_inputs and str(v) == aff[_strip_inst(k)])
                    enablers.append((cost, len(others), keys[0], others))
            # fewest other gates tripped, then fewest affirmative answers of any kind (the plainest return that gets the question asked)
            enablers.sort(key=lambda e: (e[0], sum(1 for v in e[3].values() if v is True), e[1], e[2], sorted(e[3].items(), key=str).__repr__()))
            uniq, seen_en = [], set()
            for e in enablers:
                key_e = (e[2], repr(sorted(e[3].items(), key=str)))
                if key_e not in seen_en:
                    seen_en.add(key_e)
                    uniq.append(e)
            enablers = uniq
            done = False
            is_new = (year, g["input"]) in never
            for k_try, (cost, _n, gkey, others) in enumerate(enablers[:((3 if is_new else 1) if tier == "quick" else 10)]):
                if done or cost > 0:
                    break
                ov = {}
                for k, v in others.items():
                    ov[k] = {"True": "yes", "False": "no"}.get(str(v), str(v).split(".")[-1] if str(v) != "None" else "")
                ov[gkey] = {"True": "no", "False": "yes"}.get(g["affirmative"], "")
                if "ira" in g["input"]:
                    # both spouses take an IRA distribution (the Form 1099-R copies carry who and whether it is an IRA)
                    ov.update({"1099-r:0.belongs_to": "taxpayer", "1099-r:1.belongs_to": "spouse" if "spouse" in g["input"] else "taxpayer",
                               "1099-r:0.box_7_ira_sep_simple": "yes", "1099-r:1.box_7_ira_sep_simple": "yes"})
                for rep_k in range((4 if is_new else 2) if tier == "quick" else 8):
                    rng = random.Random("dir-%d-%s-%d-%d-%d" % (year, g["input"], k_try, rep_k, sd))
                    force = {"ira": True, "f8606": True, "qualified_div": True, "nc": g["input"].startswith("nc_")}
                    if "spouse" in g["input"]:
                        force["status"] = "MarriedFilingJointly"
                    if g["input"].startswith("1040_sa"):
                        force["itemize"] = True
                    p = scenarios.Profile(rng, year=year, **force)
                    if "ira" in g["input"] or g["input"].startswith("8606"):
                        p.n["1099-r"] = 2
                    request = ["1040"] + (["nc_d-400"] if p.nc else [])
                    tr, res, solver, ans = scenarios.solve_scenario(year, request, p, rng, overrides=ov, snap="none")
                    ndirected += 1
                    if os.environ.get("HV_DEBUG"):
                        print("DIRECTED", year, g["input"], gkey, "cost", cost, "ov", ov, "->", res.get("abort"), res.get("solved"), gkey in ans.given,
                              res.get("unimpl"), list(res.get("missing", {}))[:3], list(res.get("blocked", {}))[:3], flush=True)
                    if res.get("solved") and gkey in ans.given:
                        sc2 = {"year": year, "request": request, "given": dict(ans.given), "trace": tr, "res": res, "kinds": dict(ans.kinds),
                               "sid": "dir/%d/%s/%d" % (year, g["input"], rep_k)}
                        add(tr, res, year, {"kind": "directed-base", "sid": sc2["sid"], "year": year, "request": request, "given": sc2["given"]}, sc2["given"])
                        flips_done[(year, g["input"])] = 1
                        ndirected_ok += 1
                        flip(sc2, gkey)
                        done = True
                        break
    # the user changes an answer on the SAME input store after a solve and solves again (a "what-if" session)
    import runs as runs_mod
    import habutax.forms as HF
    nsame = 0
    for sc in scs:
        if not sc["res"].get("solved") or nsame >= (6 if tier == "quick" else 60):
            continue
        year, request, given = sc["year"], sc["request"], sc["given"]
        cands = sorted(g for g in given if _strip_inst(g) in gate_inputs and sc["kinds"].get(g) == "BooleanInput")
        if not cands:
            continue
        rng = random.Random("same-%s" % sc["sid"])
        g = rng.choice(cands)
        a = aff[_strip_inst(g)]
        text = {"True": "yes", "False": "no"}.get(a, a)
        p = scenarios.Profile(rng, year=year)
        tr0, res0, solver0, ans0 = scenarios.solve_scenario(year, request, p, rng, overrides=dict(given), snap="none")
        store = solver0._i
        try:
            store[g] = text
        except Exception:      # noqa
            continue
        ans1 = scenarios.Answerer(p, rng, overrides=dict(given))
        tr1, res1, solver1 = runs_mod.run_traced(HF.available_forms[year], None, request, (), user=ans1, mode="real", snap="none", store=store, max_events=30000)
        answers = {}
        for sec in store.config.sections():
            for opt in store.config[sec]:
                answers["%s.%s" % (sec, opt)] = store.config.get(sec, opt, raw=True)
        oid = len(obs) + 1
        obs.append(gate_summary(tr1, res1, gate_inputs, year, oid, limit_facts(year, answers, res1), answers=answers))
        meta[oid] = {"kind": "same-store-flip", "gate": g, "value": text, "sid": sc["sid"], "year": year, "request": request, "given": answers}
        nsame += 1
        flipped_gates.add(_strip_inst(g))
    # amounts beyond an implemented limit
    for year in scenarios.YEARS:
        for kind in ("payers-int", "payers-div", "foreign", "hsa", "roth", "archer", "noncash", "educator"):
            for rep_k in range(2 if tier == "quick" else 8):
                rng = random.Random("lim-%d-%s-%d-%d" % (year, kind, rep_k, sd))
                # a plain return otherwise (the first repetition), so that nothing else keeps it from solving
                if rep_k <= 1:
                    p = scenarios.Profile(rng, year=year, nc=False, dependents=0, itemize=False, sched1_adjust=False, wage_scale=120000, ira=False,
                                          qualified_div=False, foreign_tax=False, hsa_you=False, hsa_spouse=False, f8606=False, div_heavy=False,
                                          dup_w2=False, plain_payers=True)
                    p.n = {"w-2": 1, "1099-int": 0, "1099-div": 0, "1099-r": 0, "1099-g": 0, "1098": 0, "1099-oid": 0}
                else:
                    p = scenarios.Profile(rng, year=year, nc=False)
                ov = {}
                if kind == "payers-int":
                    p.n["1099-int"] = 15
                    # 15 payers: comfortably above the $1,500 that requires Schedule B, or only just (the 14 rows that fit stay below it)
                    ov = {"1099-int:%d.box_1" % n: ("150.00" if rep_k != 1 else "101.00") for n in range(15)}
                elif kind == "payers-div":
                    p.n["1099-div"] = 15
                    ov = {"1099-div:%d.box_1a" % n: ("150.00" if rep_k != 1 else "101.00") for n in range(15)}
                elif kind == "foreign":
                    p.n["1099-int"] = max(1, p.n["1099-int"])
                    ov = {"1099-int:0.box_6": "%.2f" % (601.0 + rep_k)}
                elif kind == "roth":
                    # a Roth distribution above the basis in contributions, next to or without the other parts of Form 8606
                    p.ira, p.f8606 = True, True
                    p.n["1099-r"] = max(1, p.n["1099-r"])
                    ov = {"1099-r:0.box_7_ira_sep_simple": "yes", "1099-r:0.belongs_to": "taxpayer", "1040.ira_exception2_you": "yes", "1099-r:0.box_1": "8000.00", "1099-r:0.box_2a": "8000.00",
                          "8606:you.part_1_needed": "no" if rep_k % 2 == 0 else "yes", "8606:you.part_2_needed": "no", "8606:you.part_3_needed": "yes",
                          "8606:you.qualified_disaster_distributions": "no",
                          "8606:you.total_nonqualified_distributions": "%.2f" % (20000.0 + 100 * rep_k), "8606:you.qualified_homebuyer": "%.2f" % (0.0 if rep_k < 2 else 10000.0),
                          "8606:you.roth_ira_contributions_basis": "%.2f" % (5000.0 if rep_k != 1 else 19999.0)}
                elif kind == "archer":
                    p.sched1_adjust, p.hsa_you, p.hsa_spouse = True, True, False
                    lim_self = {2021: 3600.0, 2022: 3650.0, 2023: 3850.0}[year]
                    ov = {"8889:you.hdhp_plan_family": "no", "8889:you.age_under_55": "yes", "8889:you.hsa_full_year": "yes", "8889:you.employer_contribution": "0.00",
                          "8889:you.hsa_contributions": "%.2f" % (lim_self - 2000.0), "8889:you.archer_msa": "%.2f" % (0.01 if rep_k == 1 else 500.0 + rep_k),
                          "8889:you.part_2_needed": "no", "8889:you.part_3_needed": "no", "8889:you.qualified_distribution": "no"}
                elif kind == "noncash":
                    p.itemize = True
                    p.n["1098"] = max(1, p.n["1098"])
                    ov = {"1040_sa.charitable_other_than_cash_check": "%.2f" % (500.01 if rep_k == 1 else 900.0 + rep_k), "1040_sa.filling_8283": "no"}
                elif kind == "educator":
                    p.sched1_adjust = True
                    ov = {"1040_s1.educator_expenses": "%.2f" % ((500.01 if year == 2021 else 600.01) if rep_k == 1 else 700.0 + rep_k)}
                else:
                    # own contributions within the limit, but not together with what the employer paid in
                    p.sched1_adjust, p.hsa_you, p.hsa_spouse = True, True, False
                    lim_self = {2021: 3600.0, 2022: 3650.0, 2023: 3850.0}[year]
                    ov = {"8889:you.hdhp_plan_family": "no", "8889:you.age_under_55": "yes", "8889:you.hsa_full_year": "yes",
                          "8889:you.employer_contribution": "%.2f" % (500.0 + 250.0 * rep_k),
                          "8889:you.hsa_contributions": "%.2f" % (lim_self - 100.0 - 10.0 * rep_k)}
                tr, res, solver, ans = scenarios.solve_scenario(year, ["1040"], p, rng, overrides=ov, snap="none")
                given = ans.given
                add(tr, res, year, {"kind": "limit-" + kind, "year": year, "request": ["1040"], "given": dict(given)}, given)
    # the foreign-tax threshold depends on the filing status (600 on a joint return, 300 otherwise): plain returns of every
    # status with foreign tax just below, between and just above the two amounts
    for year in scenarios.YEARS:
        for st in scenarios.STATUSES:
            for amt in (("300.01", "450.00", "600.00", "600.01") if tier == "quick" else ("299.99", "300.00", "300.01", "450.00", "599.99", "600.00", "600.01", "900.00")):
                rng = random.Random("lim-ft-%d-%s-%s-%d" % (year, st, amt, sd))
                p = scenarios.Profile(rng, year=year, nc=False, status=st, dependents=0, itemize=False, sched1_adjust=False, wage_scale=120000,
                                      ira=False, qualified_div=False, foreign_tax=False, hsa_you=False, hsa_spouse=False, f8606=False, div_heavy=False, dup_w2=False)
                p.n = {"w-2": 1, "1099-int": 1, "1099-div": 0, "1099-r": 0, "1099-g": 0, "1098": 0, "1099-oid": 0}
                tr, res, solver, ans = scenarios.solve_scenario(year, ["1040"], p, rng, overrides={"1099-int:0.box_6": amt}, snap="none")
                add(tr, res, year, {"kind": "limit-foreign-status", "year": year, "request": ["1040"], "given": dict(ans.given)}, ans.given)
    work = common.mkwork()
    try:
        rows, res_t = run_oracle("Gates", "HV_FACTS_FILE", {"gates": cat, "obs": obs}, work, "C09")
    finally:
        common.rmwork(work)
    if res_t.distinct != len(obs) + 1:
        raise common.MachineryError("Gates.tla judged %d of %d observations" % (res_t.distinct - 1, len(obs)))
    for row in rows:
        kind, oid, what = row[0], int(row[1]), "|".join(row[2:])
        m = meta[oid]
        if kind == "gate":
            for g, val, reader in re.findall(r'g \|-> \\?"([^"\\]+)\\?", val \|-> \\?"([^"\\]+)\\?", reader \|-> \\?"([^"\\]+)\\?"', what) or \
                    [(x[0], x[2], x[1]) for x in re.findall(r'g \|-> \\?"([^"\\]+)\\?", reader \|-> \\?"([^"\\]+)\\?", val \|-> \\?"([^"\\]+)\\?"', what)]:
                rep.violation("gate:%d:%s=%s read by %s" % (m["year"], g, val, reader),
                              "solved although %s = %s was read by %s (%s %s)" % (g, val, reader, m["kind"], m.get("sid", "")),
                              {"kind": "scenario", "year": m["year"], "request": m["request"], "given": m["given"]})
        else:
            rep.violation("limit:%d:%s" % (m["year"], what[:80]), "solved although %s" % what, {"kind": "scenario", "year": m["year"], "request": m["request"], "given": m["given"]})
    # freshness: gate-like inputs of the current tree that the frozen catalogue does not know
    fresh = []
    if tier == "thorough":
        import derive_gates
        cur = derive_gates.derive(1500)
        known = set("%s=%s" % (g["input"], g["affirmative"]) for g in cat)
        fresh = sorted(k for k in cur if k not in known)
    cov = {"evaluations": len(obs), "distinct_nontrivial": len(set(flipped_gates)) + 1,
           "rule": "base scenarios from the explorer; for every catalogued gate input that a base run supplied, the run repeated with that input affirmative; "
                   "limit scenarios (15 payers, foreign tax above the threshold); distinct = distinct gates flipped",
           "samples": [meta[len(obs)], {"reads": obs[0]["reads"][:4]}],
           "catalogue_gates": len(cat), "gates_flipped": sorted(flipped_gates), "flipped_runs": nflip, "co_answer_flips": nco[0], "same_store_flips": nsame, "base_runs": len(scs),
           "gates_never_read": sorted(gate_inputs - flipped_gates),
           "year_gate_pairs_flipped_on_a_solved_base": len(flips_done), "directed_base_attempts": ndirected,
           "year_gate_pairs_never_flipped": sorted("%s:%s" % (y, g["input"]) for g in cat for y in g["years"] if (int(y), g["input"]) not in flips_done),
           "year_gate_pairs_flipped_on_a_directed_base": ndirected_ok, "gate_like_inputs_missing_from_catalogue": fresh,
           "explanation": "TLC evaluates Gates.tla (solved => no affirmative gate read by a non-exempt reader, no exceeded limit) on the trace summary of every explored run"}
    return rep, "exploration", cov, ["the gate catalogue (data/gates.json) is frozen and reviewed; it was drafted by forced execution (harness/derive_gates.py)",
                                     "HSA-above-limit scenarios are covered through the 8889 gates (age_under_55 / hsa_full_year) and C08's limit amounts"]


# ---------------------------------------------------------------------------------------------
# C02 line equations

STATUS_INDEX = {"Single": 1, "MarriedFilingJointly": 2, "MarriedFilingSeparately": 3, "HeadOfHousehold": 4, "QualifyingWidowWidower": 5, "QualifyingSurvivingSpouse": 5}


def c02(tier):
    import linegen
    import hand_lines
    import random
    rep = common.Reporter("C02", tier)
    sd = common.seed()
    eqs_by_year, stats = {}, {}
    for year in scenarios.YEARS:
        te, st = linegen.template_equations(year)
        he = hand_lines.equations(year)
        # a hand equation for a (form, line) replaces nothing: both are checked
        eqs_by_year[year] = te + he
        stats[str(year)] = {"from_templates": len(te), "hand_transcribed": len(he)}
    scs = real_checks.explore(tier, sd, per_year=(40 if tier == "quick" else 500), replays=False, snap="none", nc_rate=0.4)
    eqs, sols, inst, meta = [], [], [], []
    eq_index = {}
    skipped = 0
    by_eq_hits = {}
    lt_cache = {}
    def build(sc, values, collect_absent):
        """equation instances of one solution; returns the operand lines that are absent although their form takes part"""
        nonlocal skipped
        year = sc["year"]
        S, R, fo, lo = numeric_solution(year, values)
        if year not in lt_cache:
            lt_cache[year] = line_types(year)
        for name, text in values.items():
            f, l = name.split(".", 1)
            t = lt_cache[year].get((f.split(":")[0], l))
            if t and t[0] == "BooleanField":
                S[name] = 1 if text.strip().lower() == "true" else 0
        st = STATUS_INDEX.get(values.get("1040.filing_status", ""), 0)
        if st == 0:
            return set()
        if "nc_d-400.20a" in S and "nc_d-400.20b" in S:
            S["nc_d-400.20a_plus_20b"] = S["nc_d-400.20a"] + S["nc_d-400.20b"]      # the two halves of "N.C. income tax withheld"
        for gname in ("1040.other_federal_withholding", "1040.estimated_tax_payments"):
            # answers that a line copies or adds: made visible to the rules as pseudo-lines "in:<input>"
            try:
                if gname in sc.get("given", {}):
                    S["1040.in:" + gname.split(".", 1)[1]] = int((Decimal(sc["given"][gname]) * 100).to_integral_value())
            except Exception:      # noqa  (an answer that is not a number: no pseudo-line)
                pass
        # every answer of a form that takes part, visible to the rules as the pseudo-line "<form>.in:<input>" (amounts in cents, counts in
        # hundredths, yes/no as 1/0; a blank amount is zero) -- many lines are instructed to copy an amount the filer was told or to depend on a box
        for gname, gtext in sc.get("given", {}).items():
            kind = sc.get("kinds", {}).get(gname, "")
            if "." not in gname:
                continue
            gf, gi = gname.split(".", 1)
            pn = "%s.in:%s" % (gf, gi)
            if pn in S:
                continue
            try:
                t = str(gtext).strip()
                if kind == "FloatInput":
                    c = int((Decimal(t or "0") * 100).to_integral_value())
                    if abs(Decimal(t or "0")) <= 10:
                        R[pn] = int((Decimal(t or "0") * 100000).to_integral_value())      # a rate the filer enters (a county's tax rate): usable as a ratio
                elif kind == "IntegerInput":
                    c = int(t or "0") * 100
                elif kind == "BooleanInput":
                    c = {"yes": 1, "true": 1, "y": 1, "1": 1, "on": 1, "no": 0, "false": 0, "n": 0, "0": 0, "off": 0}[t.lower()]
                else:
                    continue
                if abs(c) < 2 ** 31 - 1:
                    S[pn] = c
            except Exception:      # noqa  (an answer that does not parse: no pseudo-line)
                pass
        if "1040.4a" in S and "1040.4b" in S:
            S["1040.4a_plus_4b"] = S["1040.4a"] + S["1040.4b"]      # total and taxable part of the IRA distributions: see the "ira4" rule
        absent = set()
        pending = []
        forms_present = set(n.split(".")[0] for n in values)
        for e in eqs_by_year[year]:
            instances = [f for f in forms_present if f.split(":")[0] == e["form"]]
            for finst in instances:
                full = lambda l: l if "." in l else "%s.%s" % (finst, l)
                line = full(e["line"])
                op = e["op"]
                if line not in S and not (op == "ratio" and line in R):
                    continue
                args = [full(a) for a in e.get("args", [])]
                if op == "t8606":
                    # Form 8606: the taxable amounts of the parts that were filled in (line 15c when part I applies and there was a distribution or
                    # conversion, line 18 when part II applies; line 25c of part III is only ever zero here, the program stops otherwise)
                    g1, gd, g2 = (S.get(full("in:" + x)) for x in ("part_1_needed", "distribution_or_roth_conversion", "part_2_needed"))
                    if g1 is None or g2 is None or (g1 == 1 and gd is None):
                        continue
                    args = ([full("15c")] if (g1 == 1 and gd == 1) else []) + ([full("18")] if g2 == 1 else [])
                    op = "add" if args else "zero"
                if op == "addinst":
                    # the same box of every copy of a payer form that takes part
                    args = sorted(n for n in S for (ins, box) in e["terms"] if n.split(".")[0].split(":")[0] == ins and n.split(".", 1)[1] == box)
                    op = "add"
                    if not args:
                        continue
                    if e.get("cond_nonzero") and S.get(line, 0) == 0:
                        continue
                if op == "carry_if_any":
                    # the line must come from the worksheet as soon as one of the named lines is positive
                    if not any(S.get(a, 0) > 0 for a in args):
                        continue
                    op = "carry" if e["src"] in S else "absent"
                    args = []
                if op == "addstate":
                    # the amount boxes of every payer copy whose state box names the state
                    args = []
                    for (ins, sbox, abox) in e["terms"]:
                        for n in values:
                            if n.split(".")[0].split(":")[0] == ins and n.split(".", 1)[1] == sbox and values[n].strip().split(".")[-1] == e["state"]:
                                a = "%s.%s" % (n.split(".")[0], abox)
                                if a in S:
                                    args.append(a)
                    args = sorted(args)
                    op = "add"
                if op == "ira4":
                    # every Form 1099-R copy with the IRA/SEP/SIMPLE box checked, whoever owns it, plus the taxable amounts of the Forms 8606 filed
                    args = sorted("%s.box_1" % n.split(".")[0] for n in values if n.split(".")[0].split(":")[0] == "1099-r" and
                                  n.split(".", 1)[1] == "box_7_ira_sep_simple" and values[n].strip().lower() in ("true", "yes", "1") and
                                  "%s.box_1" % n.split(".")[0] in S)
                    args += sorted(n for n in S if n.split(".")[0].split(":")[0] == "8606" and n.split(".", 1)[1] == "taxable_amount")
                    op = "add"
                    if not args:
                        continue
                if op == "pens5":
                    # the named box of every Form 1099-R copy WITHOUT the IRA/SEP/SIMPLE box checked
                    args = sorted("%s.%s" % (n.split(".")[0], e["box"]) for n in values if n.split(".")[0].split(":")[0] == "1099-r" and
                                  n.split(".", 1)[1] == "box_7_ira_sep_simple" and values[n].strip().lower() in ("false", "no", "0") and
                                  "%s.%s" % (n.split(".")[0], e["box"]) in S)
                    op = "add"
                    if not args:
                        continue
                if op == "addopt":
                    # the sum of those of the named lines that exist in this solution (a form that takes no part adds nothing)
                    args = [a for a in args if a in S]
                    op = "add"
                    if not args or full(e["need"]) not in S:
                        continue
                if op == "addprefix":
                    args = sorted(n for n in S if n.startswith("%s.%s" % (finst, e["prefix"])))
                    op = "add"
                    if not args:
                        continue
                src = e.get("src", "")
                if op == "carry" and src not in S:
                    sform = src.split(".")[0]
                    if not any(f.split(":")[0] == sform for f in forms_present):
                        if e["origin"] == "hand" or e.get("cond"):
                            continue            # conditional on the other form being used
                        op = "carry0"           # the source form takes no part: nothing to carry
                    else:
                        absent.add(src)
                        if not collect_absent:
                            skipped += 1
                        continue
                need = [a for a in args if (a not in S and not (op == "mull" and a == args[-1]))]
                if op == "rrc6":
                    need = []           # the equation itself treats a question that was not reached as answered no
                if op == "mull" and args[-1] not in R:
                    need.append(args[-1])
                cond = e.get("cond", "")
                if cond and "." not in cond:
                    cond = full(cond)           # a condition on a line or answer of the same form instance
                if cond and cond not in S:
                    need.append(cond)
                if need:
                    absent.update(need)
                    if not collect_absent:
                        skipped += 1
                    continue
                places = (lt_cache[year].get((finst.split(":")[0], e["line"])) or ("", 2))[1]
                tol = 0
                if places == 0:
                    tol = 50 if op in ("carry", "mul", "mull", "min", "minconst", "same") else 0
                if "tol" in e:
                    tol = e["tol"]                       # stated with the equation (whole-dollar halves of a sum of cent amounts)
                tol = max(tol, e.get("tol_min", 0))
                key = json.dumps([year, e["form"], e["line"], op, e.get("origin"), cond, e.get("condis", 0)] + [a.split(".", 1)[1] for a in args])
                rec = {"eid": 0, "op": "subx" if e.get("exact_sub") else op, "line": line, "args": args, "src": src, "floor": bool(e.get("floor")), "cap0": bool(e.get("cap0")),
                       "num": e.get("num", 0), "den": e.get("den", 1), "k": e.get("k", 0), "tol": tol, "consts": e.get("consts", [0, 0, 0, 0, 0]),
                       "cond": cond, "condis": e.get("condis", 0)}
                pending.append((rec, e, finst, key))
        if collect_absent and absent:
            return absent
        sols.append({"S": S, "R": R, "status": st})
        si = len(sols)
        for rec, e, finst, key in pending:
            eqs.append(rec)
            inst.append({"sol": si, "eq": len(eqs)})
            meta.append((sc, e, finst))
            by_eq_hits[key] = by_eq_hits.get(key, 0) + 1
        return set()

    forced = 0
    wrong_source = []
    for sc in scs:
        r = sc["res"]
        if r["abort"] or "values" not in r:
            continue
        absent = build(sc, r["values"], False)
        # a carry whose source line was never computed although the target was: did the target take another line of that form?
        reads = {}
        for ev in sc["trace"]["events"]:
            if ev["ev"] == "attempt" and ev["out"]["o"] == "val":
                reads[ev["line"]] = set(n for (k3, n, _d) in ev["reads"] if k3 == "ln")
        for e in eqs_by_year[sc["year"]]:
            if e["op"] != "carry":
                continue
            src = e["src"]
            tgt = "%s.%s" % (e["form"], e["line"])
            if tgt in r["values"] and src not in r["values"]:
                other = sorted(n for n in reads.get(tgt, ()) if n.split(".")[0] == src.split(".")[0] and n != src)
                if other:
                    wrong_source.append((sc, e, other))
    # ---- every arithmetic line in isolation, with operand values at boundaries (equal operands, zero, exact multiples
    # of 1,000, half cents): the real line definition is called with pre-seeded operand lines, as the repository's tests do
    iso = isolated_probes(eqs_by_year, tier, sd)
    n_iso = 0
    for (year, e, finst, S, status) in iso:
        sols.append({"S": S, "R": {}, "status": status})
        places = (lt_cache.setdefault(year, line_types(year)).get((e["form"], e["line"])) or ("", 2))[1]
        tol = 50 if (places == 0 and e["op"] in ("carry", "mul", "mull", "min", "minconst", "same")) else 0
        full = lambda l: "%s.%s" % (finst, l)
        rec = {"eid": 0, "op": "subx" if e.get("exact_sub") else e["op"], "line": full(e["line"]), "args": [full(a) for a in e.get("args", [])], "src": "",
               "floor": bool(e.get("floor")), "cap0": bool(e.get("cap0")), "num": e.get("num", 0), "den": e.get("den", 1), "k": e.get("k", 0), "tol": tol,
               "consts": e.get("consts", [0, 0, 0, 0, 0]), "cond": "", "condis": 0}
        eqs.append(rec)
        inst.append({"sol": len(sols), "eq": len(eqs)})
        meta.append(({"year": year, "sid": "isolated line probe", "request": [], "given": {"operands_cents": {k2: v2 for k2, v2 in S.items()}, "status": status}}, e, finst))
        n_iso += 1
    work = common.mkwork()
    try:
        path = os.path.join(work, "lines.json")
        json.dump({"eqs": eqs, "sols": sols, "inst": inst}, open(path, "w"))
        cfgp = os.path.join(work, "l.cfg")
        open(cfgp, "w").write("SPECIFICATION Spec\nCHECK_DEADLOCK FALSE\n")
        res = common.run_tlc(os.path.join(common.SPEC, "Lines.tla"), cfgp, cwd=work, workers=1, env={"HV_LINES_FILE": path}, timeout=3400, heap="10g")
    finally:
        common.rmwork(work)
    if res.rc != 0 or res.distinct != len(inst) + 1:
        raise common.MachineryError("Lines.tla failed (rc=%s, %d states for %d instances)\n%s" % (res.rc, res.distinct, len(inst), res.error_excerpt(40)))
    for m in re.finditer(r'^"C02\|(\d+)\|"$', res.out, re.M):
        sc, e, finst = meta[int(m.group(1)) - 1]
        rec = eqs[inst[int(m.group(1)) - 1]["eq"] - 1]
        S = sols[inst[int(m.group(1)) - 1]["sol"] - 1]["S"]
        vals = {rec["line"]: S.get(rec["line"])}
        for a in rec["args"] + ([rec["src"]] if rec["src"] else []):
            vals[a] = S.get(a)
        rep.violation("line:%d:%s.%s:%s" % (sc["year"], e["form"], e["line"], e["op"]),
                      "%s.%s is not what the instruction says (%s %s %s) -- \"%s\"; values (cents) %s in %s" % (finst, e["line"], e["op"], e.get("args", ""), e.get("src", ""), e.get("text", "")[:120], vals, sc["sid"]),
                      {"kind": "scenario", "year": sc["year"], "request": sc["request"], "given": sc["given"], "equation": {k: v for k, v in e.items()}})
    for sc, e, other in wrong_source:
        rep.violation("line:%d:%s.%s:carry" % (sc["year"], e["form"], e["line"]),
                      "%s.%s is carried from %s, the instruction names %s -- \"%s\" (%s)" % (e["form"], e["line"], other, e["src"], e.get("text", "")[:120], sc["sid"]),
                      {"kind": "scenario", "year": sc["year"], "request": sc["request"], "given": sc["given"], "equation": dict(e)})
    cov = {"evaluations": len(inst), "distinct_nontrivial": len(by_eq_hits),
           "rule": "every equation (generated from the instruction text of the bundled IRS templates, or hand-transcribed with a citation) x every explored solution (complete or partial) that holds the line and its operands; "
                   "distinct = distinct (year, form, line, rule) exercised at least once",
           "samples": [{"equation": {k: v for k, v in meta[0][1].items()}, "scenario": meta[0][0]["sid"]}] if meta else [{"none": True}],
           "equations": stats, "isolated_line_probes": n_iso, "solutions": len(sols), "instances_skipped_operand_absent": skipped, "carries_from_another_line_of_the_source_form": len(wrong_source), "states": res.distinct,
           "explanation": "TLC evaluates Lines.tla on every equation instance in integer cents"}
    return rep, "exploration", cov, ["hand-transcribed worksheet and NC equations are as good as the transcription (citations in harness/hand_lines.py)",
                                     "an equation is skipped on a solution that lacks one of its operand lines; amounts below $10M; percentages within 1 cent (whole-dollar lines within 50 cents)"]



def isolated_probes(eqs_by_year, tier, seed_):
    """-> list of (year, equation, form instance, S in cents, status index): real line definitions evaluated on chosen operand values"""
    import random
    import pathexplore
    import habutax.enum as E
    from habutax.fields import FieldNotImplemented
    rng = random.Random(555 + seed_)
    B = [0.0, 0.01, 1.0, 999.99, 1000.0, 1000.01, 2000.0, 2500.5, 12345.67, 99999.99, 200000.0, 201000.0, 203000.0, 250000.49, 401000.0, 1000000.0]
    out = []

    class Skip(Exception):
        pass
    for year, eqs in eqs_by_year.items():
        cat = pathexplore.Catalogue(year)
        en = E.filing_status_2021 if year == 2021 else E.filing_status
        members = list(en.__members__.values())
        for e in eqs:
            if e["op"] not in ("add", "sub", "mul", "mulk", "mulcnt", "min", "max", "same", "ceil1000", "max0sub", "minconst", "const") or e.get("cond") or any("." in a for a in e.get("args", [])):
                continue
            cls = cat.classes.get(e["form"])
            if cls is None:
                continue
            inst = (list(getattr(cls, "valid_instances", [])) or [None])[0]
            finst = e["form"] if inst is None else "%s:%s" % (e["form"], inst)
            try:
                form = cat.form(finst)
            except Exception:     # noqa
                continue
            fields = {x.base_name(): x for x in form.fields()}
            field = fields.get(e["line"])
            args = e.get("args", [])
            if field is None or any(a not in fields for a in args):
                continue
            statuses = range(1, 6) if e.get("consts") else [1]
            nvec = (12 if tier == "quick" else 60)
            vectors = []
            if len(args) <= 2 and tier != "quick":
                import itertools
                vectors = [list(v) for v in itertools.product(B, repeat=len(args))]
            else:
                for _ in range(nvec):
                    vectors.append([rng.choice(B) for _a in args])
                if len(args) == 2:
                    vectors += [[b, b] for b in B[:8]] + [[1000.0, 201000.0 - 200000.0], [200000.0, 201000.0], [200000.0, 203000.0], [400000.0, 401000.0]]
            for st in statuses:
                for vec in vectors:
                    vals = {}
                    for a, x in zip(args, vec):
                        t = type(fields[a]).__name__
                        if t == "FloatField" and getattr(fields[a], "_places", 2) == 0:
                            x = float(round(x))          # a whole-dollar line only ever holds whole dollars
                        vals["%s.%s" % (finst, a)] = (int(x) % 5 if t == "IntegerField" else (bool(int(x) % 2) if t == "BooleanField" else float(x)))

                    class V(dict):
                        def __getitem__(s2, k):
                            k2 = k if "." in k else "%s.%s" % (finst, k)
                            if k2 not in vals:
                                # a line the instruction does not mention: not probed (serving arbitrary amounts for it would judge
                                # unreachable combinations -- e.g. Form 1040 line 1z also adds line 1i, which is always zero, and a
                                # definition may inline another line); such lines are judged on explored returns only
                                raise Skip()
                            return vals[k2]

                    class I(dict):
                        def __getitem__(s2, k):
                            k2 = k if "." in k else "%s.%s" % (finst, k)
                            if k2.endswith(".filing_status"):
                                return members[st - 1]
                            raise Skip()
                    form._solver = pathexplore.MockSolver(cat, set())
                    try:
                        r = field.value(I(), V())
                    except (Skip, FieldNotImplemented):
                        continue
                    except Exception:      # noqa
                        continue
                    if isinstance(r, bool) or not isinstance(r, (int, float)):
                        continue
                    S = {}
                    ok = True
                    for k2, v2 in list(vals.items()) + [("%s.%s" % (finst, e["line"]), r)]:
                        c = int(round(v2 * 100)) if isinstance(v2, float) else int(v2) * 100
                        if abs(c) >= 2 ** 31 - 1:
                            ok = False
                        S[k2] = c
                    if ok:
                        out.append((year, e, finst, S, st))
    return out
