"""C12: stored line values: declared type, rounding, blank convention (FieldType.tla)."""
import json
import os
import random
import re
from decimal import Decimal

import common
import scenarios


def frac_digits(v):
    d = Decimal(repr(float(v)))
    if not d.is_finite():
        return 0
    e = d.normalize().as_tuple().exponent      # 123.0 has no fraction digits, 0.10 has one
    return max(0, -e)


class MyInt(int):
    pass


class MyFloat(float):
    pass


class MyStr(str):
    pass


class Swallowed(Exception):
    pass


def through_solver(decl, places, en, fn):
    """the same line evaluated by a real solve of a one-line form: -> stored value; raises what solve() raises"""
    import configparser
    from habutax import fields as FL
    from habutax.form import Form
    from habutax.inputs import InputStore
    from habutax.solver import Solver

    class T(Form):
        form_name = "t"
        tax_year = 1970
        description = "one line"
        long_description = "one line"

        def __init__(self, **kwargs):
            if decl == "FloatField":
                f = FL.FloatField("line_x", fn, places=places)
            elif decl == "EnumField":
                f = FL.EnumField("line_x", en, fn)
            else:
                f = getattr(FL, decl)("line_x", fn)
            super().__init__(T, [], [f], [], **kwargs)

        def needs_filing(self, values):
            return False
    s = Solver(InputStore(configparser.ConfigParser()), [T])
    s.solve(["t"])
    if "t.line_x" not in s._v.values:
        raise Swallowed()
    return s._v.values["t.line_x"]


def cases():
    from habutax import fields as FL
    import habutax.enum as E

    class FakeForm(object):
        def name(self):
            return "t"
    en = E.taxpayer_or_spouse
    raws = [None, "", "   ", "\t\n", 0, 1, -3, True, False, 0.0, 1.0, 2.675, 0.125, 1.005, -0.004999, 1e-9, 123456.789012, 1 / 3.0, 1e15 + 0.3, "x", " padded ", "12", 12.0,
            MyInt(5), MyFloat(2.5), MyStr("s"), MyStr("  "), [1], (2,), {"a": 1}, en.taxpayer, en.spouse, E.filing_status.Single, b"bytes", 3 + 0j, float("nan"), float("inf"),
            # texts that NAME an option or equal an option's own value (its description): still not the option itself
            en.taxpayer.name, en.spouse.value, str(en.taxpayer)]
    decls = [("StringField", None), ("BooleanField", None), ("IntegerField", None), ("FloatField", 0), ("FloatField", 2), ("FloatField", 5), ("EnumField", None)]
    out = []
    for via, decl, places, raw in [(via, d, p, r) for via in ("field", "solver") for (d, p) in decls for r in raws]:
        if True:
            fn = (lambda s, i, v, raw=raw: raw)
            if decl == "FloatField":
                f = FL.FloatField("line_x", fn, places=places)
            elif decl == "EnumField":
                f = FL.EnumField("line_x", en, fn)
            else:
                f = getattr(FL, decl)("line_x", fn)
            f.__form_init__(FakeForm())
            declared = f._type
            rec = {"cid": len(out) + 1, "decl": decl, "places": places if places is not None else 0, "rawtype": type(raw).__name__,
                   "rawblank": isinstance(raw, str) and raw.strip() == "", "rawexact": type(raw) is declared,
                   "via": via, "outcome": "", "names_line": False, "vtype": "", "isempty": False, "fracdigits": 0, "milli_raw": 0, "scaled_stored": 0, "small": False, "raw": repr(raw)}
            try:
                if via == "solver":
                    v = through_solver(decl, places, en, fn)
                else:
                    v = f.value({}, {})
                rec["outcome"] = "value"
                rec["vtype"] = "enum" if (decl == "EnumField" and v is not None and type(v) is en) else type(v).__name__
                empty = {"StringField": "", "BooleanField": False, "IntegerField": 0, "FloatField": 0.0, "EnumField": None}[decl]
                rec["isempty"] = (v == empty and type(v) is type(empty))
                if isinstance(v, float) and v == v and abs(v) != float("inf"):
                    rec["fracdigits"] = frac_digits(v)
                    if isinstance(raw, float) and abs(raw) < 1e5 and raw == raw:
                        rec["small"] = True
                        rec["milli_raw"] = int(round(Decimal(repr(raw)) * (10 ** (rec["places"] + 3))))
                        rec["scaled_stored"] = int(round(Decimal(repr(v)) * (10 ** rec["places"])))
            except TypeError as e:
                rec["outcome"] = "TypeError"
                rec["names_line"] = "t.line_x" in str(e)
            except Swallowed:
                rec["outcome"] = "no value and no error (the solve went on)"
            except Exception as e:     # noqa
                rec["outcome"] = type(e).__name__
            out.append(rec)
    return out


def mirror_facts():
    import habutax.forms as F
    from habutax.form import InputForm
    out = []
    for year in sorted(F.available_forms):
        for cls in F.available_forms[year]:
            try:
                if not issubclass(cls, InputForm):
                    continue
            except TypeError:
                continue
            f = cls(instance="0")
            fields = {x.base_name(): type(x).__name__ for x in f.fields()}
            for i in f.inputs():
                out.append({"form": "%d:%s" % (year, cls.form_name), "input": i.base_name(), "itype": type(i).__name__, "ftype": fields.get(i.base_name(), "missing")})
    return out


def c12(tier):
    rep = common.Reporter("C12", tier)
    sd = common.seed()
    cs = cases()
    mirror = mirror_facts()
    stored, smeta = [], []
    per_year = 12 if tier == "quick" else 200
    for year in scenarios.YEARS:
        for k in range(per_year):
            rng = random.Random("ft-%d-%d-%d" % (sd, year, k))
            p = scenarios.Profile(rng, year=year, nc=rng.random() < 0.35)
            request = ["1040"] + (["nc_d-400"] if p.nc else [])
            tr, res, solver, ans = scenarios.solve_scenario(year, request, p, rng, snap="none")
            for name, v in solver._v.values.items():
                f = solver._field_map[name]
                decl = type(f).__name__
                vt = "enum" if (decl == "EnumField" and v is not None and isinstance(v, f.enum())) else type(v).__name__
                stored.append({"sid": len(stored) + 1, "decl": decl, "places": getattr(f, "_places", 0) or 0, "vtype": vt,
                               "fracdigits": frac_digits(v) if isinstance(v, float) else 0})
                smeta.append((year, name, "%d/%d" % (year, k)))
    work = common.mkwork()
    try:
        path = os.path.join(work, "ft.json")
        json.dump({"cases": [{k: v for k, v in c.items() if k != "raw"} for c in cs], "stored": stored, "mirror": mirror}, open(path, "w"))
        cfgp = os.path.join(work, "f.cfg")
        open(cfgp, "w").write("SPECIFICATION Spec\nCHECK_DEADLOCK FALSE\n")
        res = common.run_tlc(os.path.join(common.SPEC, "FieldType.tla"), cfgp, cwd=work, workers=1, env={"HV_FT_FILE": path}, timeout=3000, heap="8g")
    finally:
        common.rmwork(work)
    n = len(cs) + len(stored) + len(mirror)
    if res.rc != 0 or res.distinct != n + 1:
        raise common.MachineryError("FieldType.tla failed (rc=%s, %d states for %d facts)\n%s" % (res.rc, res.distinct, n, res.error_excerpt(40)))
    for m in re.finditer(r'^"C12\|(case|stored|mirror)\|(\d+)\|(.*)\|"$', res.out, re.M):
        kind, idx, msg = m.group(1), int(m.group(2)) - 1, m.group(3)
        if kind == "case":
            c = cs[idx]
            rep.violation("case:%s/%s:raw %s:%s" % (c["decl"], c["places"], c["rawtype"], msg[:60]), "%s (definition returned %s)" % (msg, c["raw"]), {"kind": "field-case", "case": c})
        elif kind == "stored":
            y, name, sid = smeta[idx]
            rep.violation("stored:%d:%s:%s" % (y, re.sub(r":[^.]*\.", ":N.", name), msg[:50]), "%s: %s in %s" % (name, msg, sid), {"kind": "stored-value", "scenario": sid, "line": name})
        else:
            mf = mirror[idx]
            rep.violation("mirror:%s.%s" % (mf["form"], mf["input"]), msg, {"kind": "mirror", "fact": mf})
    cov = {"evaluations": n, "distinct_nontrivial": len(cs) + len(mirror), "rule": "every (line type, decimal places 0/2/5) x every kind of Python value a definition might return (exact type, bool for int, int for float, "
           "subclasses, None, blank text, containers, enumeration members, nan/inf) through the real TypedField.value(); every value stored by explored real returns; every input of every input-only form",
           "samples": [cs[5]], "cases": len(cs), "stored_values": len(stored), "mirrored_inputs": len(mirror), "states": res.distinct,
           "explanation": "TLC evaluates FieldType.tla (StoreResult, rounding, mirroring) on the observations; that readers see the rounded stored value is enforced on every validated trace by SolverTrace.tla (ReadOk)"}
    return rep, "exploration", cov, ["rounding judged on decimal expansions of the stored doubles (repr)"]
