"""Regenerates MANIFEST.json from the table below (kept in one place so it is always valid)."""
import json, os, subprocess
ROOT = os.path.dirname(os.path.dirname(os.path.abspath(__file__)))

CLAIMED = {
 "C01": ("model_checking", "TLC model checking (Solver.tla, all schedules) + TLC trace validation of real runs (SolverTrace.tla) + Denote.tla oracle",
         "TLC checks NoSilentSuccess/FailureIsNamed/AbortIsDenoted on every schedule, initial file and user behaviour of generated form programs; every real execution (generated programs, shipped forms, the repository's own tests) is replayed event by event through SolverTrace.tla, which recomputes the verdict and diagnostics from the observed attempt outcomes and must agree with solve()'s return value and getters; terminal results are judged against the schedule-free denotation.", "6/C01"),
 "C03": ("model_checking", "TLC model checking (FixedPoint, WriteOnce) + trace validation: every logged read must equal the specification's store",
         "TLC checks FixedPoint/WriteOnce/InputsOnlyAdded on all schedules of generated programs; in every validated real trace each read of a storing attempt must equal the value the specification holds at that moment and (programs) the whole step must equal AttemptProg; stored values are re-evaluated on the final solution by Judge.tla; on the shipped forms every stored line of every explored return is evaluated once more on the final state (FixedPoint.tla); runs with a [DEFAULT] section in the input file are judged for the fixed point only.", "6/C03"),
 "C04": ("model_checking", "TLC model checking (ClosureSound/ClosureComplete/EqualsDenotation) + trace validation of forms/lines added",
         "TLC checks that the terminal state is exactly the least demand closure (Denote.tla) for all schedules; real runs: forms added per attempt, field map, solving set and solution() keys must equal the specification's; results judged against the closure; requests also go through the real command line (argument parser) and the written solution is compared with the library solve of the same request.", "6/C04"),
 "C05": ("model_checking", "TLC model checking with a nondeterministic scheduler (EqualsDenotation) + real runs under permuted schedules (guarded hook), request orders and file/prompt splits compared with each other",
         "The design model makes every choice point nondeterministic and TLC shows every terminal state equals the schedule-free denotation; the real solver is run under natural, reversed and random schedules through the guarded hook, with shuffled request order and file/prompt splits, every run validated against SolverTrace.tla and all runs with equal inputs required to return identical results; explored real returns are re-solved from the written-back file, from a file holding the answers as typed, with reversed requests and with instanced forms also requested by name; input files with a repeated key must give one outcome in either order.", "6/C05"),
 "C06": ("model_checking", "TLC model checking incl. liveness (<>Terminal under WF) and work-bound ghosts + Tracker.tla object model (all histories; bounded-list variant explored completely; Apalache inductive invariant in the thorough tier) + trace validation of drains",
         "TLC checks termination without state constraint, AskAtMostOnce, EvalBound, NoLostWaiter, NoEarlyRelease on generated programs incl. cyclic ones; each real drain must release exactly the waiters the specification computes (multiset), work counters of real runs judged by Judge.tla; the tracer bounds events so a livelock yields a finite rejected trace. The real DependencyTracker's reachable transitions are validated by meaning (bag of waiters per dependency, releasable set). The natural order (NatSort.tla) is compared with sort_keys for the record only.", "6/C06"),
 "C13": ("model_checking", "TLC model checking (AskOnlyDemandedMissing, NoAskAfterRefusal, UnreadNotRequired) + trace validation of every prompt + solve/write-back/solve histories through the real command",
         "TLC checks the prompt discipline on all schedules; each real prompt must be for an unmet input of the specification's tracker with needed_by equal to the registered waiters, never after a refusal; asked inputs judged against the program (the quoted lines really stop at that input).", "6/C13"),
 "C02": ("exploration", "TLC evaluates Lines.tla: equations generated from the instruction text of the bundled official templates (plus cited hand transcriptions) on every explored solution",
         "About 90 equations per year are generated at check time from the line instructions printed in the bundled IRS templates (add / subtract with floor / multiply by rate / smaller of / carry from schedule), matched to lines by the line number in the label, not through the program's PDF mappings; about 160 more per year are cited hand transcriptions (worksheets, status look-ups, Forms 8606 / 8889 / 8959, Schedule A entries, NC forms with wording quoted from the bundled NC PDFs); answers are visible to the rules as pseudo-lines, so lines that copy an amount the filer enters are judged too. Every equation is evaluated by TLC in integer cents on the stored, rounded lines of every explored real solution; carries taken from another line of the source form than the instruction names are detected from the trace's reads.", "6/C02"),
 "C07": ("exploration", "TLC evaluates TaxSchedule.tla (Rev. Proc. brackets, table-row geometry, midpoint rule; limb arithmetic above 32 bits) on observations of figure_tax()",
         "figure_tax() is swept (thorough: every whole-dollar income below $100,000 for 5 statuses x 3 years; every row and bracket boundary with one-cent neighbours; seeded incomes up to $1e12) and every observation is judged by TLC against an oracle written from the Revenue Procedures, independent of the program's hand-entered tables.", "6/C07"),
 "C08": ("translation_validation", "constants harvested from every bound line definition by forced execution per filing status; TLC compares them with the Official table of Statutory.tla",
         "Exhaustive over every (year, bound line, filing status) triple: the statutory-looking constants a line compares with, combines with, looks up or returns on any syntactic path must be exactly the published amounts (Rev. Proc. / instructions / NC D-401) transcribed in Statutory.tla; covers threshold tables and inline if/elif chains alike.", "6/C08"),
 "C09": ("exploration", "TLC evaluates Gates.tla (frozen gate catalogue) on the trace summary of every explored run; gates flipped one at a time in solved base returns",
         "For every catalogued gate input (76, drafted by forced execution and reviewed) read by a solved explored return, the return is re-solved with the gate affirmative (plus gate-directed amount variants, and every yes/no answer that a line reading the gate also consulted inverted one at a time); seven amount limits (foreign tax, Schedule B rows, HSA limit, Roth distribution above basis, Archer MSA, non-cash gifts without Form 8283, educator expenses) are judged from the inputs on directed returns; the invariant 'solved => no affirmative gate read by a non-exempt line, no exceeded limit' is evaluated by TLC on the reads of every run.", "6/C09"),
 "C10": ("translation_validation", "forced execution of every line definition along all syntactic paths; TLC runs the solver's resolution protocol (Catalogue.tla over SolverCore) on every reference",
         "Every line definition of every form and allowed instance in the three years is executed along its syntactic paths with mock accessors (branch outcomes forced both ways); each reference found (input, line, form, threshold, enumeration member, helper) is resolved by TLC with the solver's own AddForm/ApplyFinal/LoadSpec operators and must end resolved or in 'unsupported' for a deliberately absent form; attribute/name/key errors on any path are violations.", "6/C10"),
 "C15": ("exploration", "TLC evaluates Balance.tla (balance equations, exclusivity, sign constraints) on every solved explored return",
         "Seeded scenario exploration of the shipped forms (3 years, all statuses, with and without NC); every solved return's numeric lines in integer cents are judged by the TLA+ formulas of Balance.tla.", "6/C15"),
 "C16": ("exploration", "TLC evaluates Metamorphic.tla on pairs of solved explored returns (renumbering permutations, wage / federal and N.C. withholding / deduction increments)",
         "For every solved explored return all permutations of payer-form copies and sampled increments (wages, federal tax withheld wherever it is entered, N.C. tax withheld on every payer form, deductible expenses) are re-solved by the real solver and each pair is judged by the TLA+ relations of Metamorphic.tla.", "6/C16"),
 "C17": ("translation_validation", "TLC evaluates CatalogueFacts.tla on introspected catalogue facts, real Form.threshold() look-ups and the parsed output of list-forms / list-form-inputs",
         "Exhaustive over every (year, form class, allowed instance) and every (status-keyed threshold table, filing status) pair: instantiation, declared year, unique names, metadata, name hygiene; the Lookup operator of the specification must give exactly one value per status and the real Form.threshold() must return it; the list-form-inputs template, un-commented, must parse back to exactly the declared inputs.", "6/C17"),
 "C20": ("model_checking", "TLC model checking of Session.tla (write-back in finally, every interruption point and kind, second session) + real CLI sessions judged by SessionTrace.tla",
         "Session.tla composes the solver specification with the solve command's file handling and is model-checked over every prompt index and kind of interruption on generated programs; the real command is run in-process with a scripted keyboard and interrupted at every prompt index (generated programs) and sampled indices (real returns) by Ctrl-C and end of input, other sessions end in unsupported forms, failing lines or invalid file text; file before/after and the follow-up run are judged by TLC.", "6/C20"),
 "C19": ("exploration", "TLC decodes the real form-data (FDF) output with PdfString.tla (PDF literal-string syntax) and evaluates Fill.tla on the stand-in pdftk's recorded argv",
         "All strings up to length 4 (thorough 5) over an adversarial alphabet go through the real _create_fdf as values and as names and are decoded back by TLC; every solved explored return (a third with adversarial text) goes through the real fill_pdfs with a recording stand-in for pdftk and Fill.tla requires: exactly the forms needing filing, once each, ordered by jurisdiction/sequence, no worksheet or input-only form, every FDF value equal to the mapped text, and an error instead of an over-long or out-of-list value.", "6/C19"),
 "C14": ("exploration", "TLC evaluates RoundTrip.tla on every value sent through solution() -> ConfigParser file -> the real fill-pdfs loading path (stand-in pdftk)",
         "Every stored line of every explored real solution (complete or partial) and of a synthetic form covering all line types, decimal places, magnitudes, text shapes and enumeration members is written like the solve command does, read back by the real fill-pdfs code with the stamped year's form definitions, and compared by TLC: numbers/booleans exactly (binary-exact floats), enumerations by member, blank as blank, text up to surrounding whitespace; stamped year = solved year = interpreting year.", "6/C14"),
 "C11": ("exploration", "TLC classifies every input text with Lex.tla (must / may / reject + denotation) and evaluates InputGate.tla on the outcome of the real InputStore and prompt path",
         "Per input type all texts up to length 3 (thorough 4) over an adversarial alphabet, hand-picked corner cases and seeded longer texts are pushed through the real InputStore by set(), by file and through prompt_input (+ the solver's assertion), and from a file through a one-input form solved by the real Solver with a prompt installed; TLC requires reject => reported invalid, must => value of the declared type equal to the denotation, may => consistent and finite; supplied never missing, not supplied always missing.", "6/C11"),
 "C12": ("exploration", "TLC evaluates FieldType.tla (StoreResult, rounding, blank convention, mirroring) on real TypedField.value() outcomes and on every value stored by explored returns",
         "Every (line type, decimal places) x every kind of Python value a definition may return goes through the real TypedField.value(); expected TypeError naming the line / empty value / rounded value per the specification; all values stored by explored real returns are checked for exact declared type and rounding; input-only forms' input-to-line type mirroring is checked exhaustively. Readers seeing the rounded stored value is enforced by SolverTrace.tla on every validated trace.", "6/C12"),
 "C18": ("translation_validation", "TLC evaluates PdfMap.tla on all mappings against field trees parsed from the bundled templates (XFA packets / AcroForm dictionaries)",
         "Exhaustive over all 1665 mappings (1245 IRS, 420 NC) of all forms and years: target exists; where the template's accessibility text (IRS) or field name (NC) carries a line number the mapped line is that line; a box in row N of a template table is driven by a line of entry N; check-box export values, length limits and choice lists agree with the template; no field driven twice; exclusive check-box groups have at most one box on for every value of the driving line (real pdf_field.value() called for each); every fileable form has a template and mappings; every mapped line exists.", "6/C18"),
}

NOTES = {
 "C02": "explored solutions are seeded samples; an equation is skipped on a solution lacking one of its operands (counted in the evidence); hand-transcribed equations are as good as the transcription (harness/hand_lines.py); percentages within 1 cent, whole-dollar lines within 50 cents",
 "C18": "PDF text extraction (stdlib inflate + XML/regex) is trusted base; fields whose label carries no line number are only checked for existence, kind, export value, limits; six reviewed label exceptions in data/pdfmap_exceptions.json",
 "C11": "the Lex.tla grammar is my statement of what each type documents; correct rounding of binary floats not decided (cent precision for plain decimals); '%' outside the alphabet",
 "C12": "explored returns are seeded samples; rounding judged on the repr of stored doubles",
 "C14": "text containing '%' is not generated (configparser interpolation makes the program abort, which is an error exit, not a wrong value); explored solutions are seeded samples",
 "C19": "pdftk itself is absent: verified is everything up to the bytes and argv handed to it; box lengths / choice lists are the mapping's own (compared with the templates by C18); printable ASCII",
 "C20": "real sessions are in-process calls of habutax.solve() with builtins.input replaced; file contents compared up to surrounding whitespace; quick tier samples every 9th prompt index on real returns",
 "C09": "the gate catalogue data/gates.json is a frozen, reviewed list (freshness against the current tree is reported in the thorough tier's evidence, never as a violation); gates whose input no explored return reads are listed in the evidence as gates_never_read",
 "C08": "the Official table is my transcription (internal consistency axioms checked by TLC); the list of bound lines is in Statutory.tla, lines with statutory-looking constants outside it are reported as observed_not_judged; the pairing of NC child-deduction bands with amounts is left to C02",
 "C17": "trusted base: introspection of Form objects, configparser for parsing the printed template; inline if/elif status chains are not tables and are covered by C08 probes",
 "C07": "the oracle's bracket table is my transcription of Rev. Proc. 2020-45/2021-45/2022-38, cross-checked by internal consistency axioms (MFJ = 2 x Single etc.) and by reproducing every row of the three shipped tables; worksheet values compared at +-1 cent; quick tier samples every 13th dollar",
 "C10": "paths are forced, so infeasible paths are included (over-approximation); loops take 0-2 iterations; path enumeration per line is capped (quick 3000, thorough 40000); trusted base: the mock accessors of harness/pathexplore.py, TLC",
 "C15": "explored returns only (seeded); amounts below $10M; the list of lines the forms define as non-negative is a reviewed transcription in Balance.tla",
 "C16": "explored returns only (seeded); pairs compared only when both solve; listing lines exempt from renumbering equality are the Schedule B payer rows",
}
TODO = {}
for line in open(os.path.join(ROOT, "properties.jsonl")):
    d = json.loads(line)
    if d["id"] not in CLAIMED:
        TODO[d["id"]] = "check not built yet in this revision (planned: DESIGN.md section 6/%s); nothing is claimed" % d["id"]

def main():
    checks = []
    for pid, (cat, tech, text, ref) in sorted(CLAIMED.items()):
        checks.append({
            "property_id": pid,
            "quick_cmd": "./check %s --tier quick" % pid,
            "thorough_cmd": "./check %s --tier thorough" % pid,
            "evidence_file": "/verif/evidence/%s.json" % pid,
            "replay_cmd_template": "./check %s --replay {path}" % pid,
            "engine": "tlc",
            "level_claimed": {"category": cat, "text": text, "design_ref": ref},
            "level_note": NOTES.get(pid, "bounded: generated programs are a seeded sample (values 0/1, <= 3 forms); conformance of the code to the specification is established on observed executions only; trusted base: TLC, the tracer's wrappers, JSON ingest"),
            "technique": tech,
        })
    hooks_commits = subprocess.run(["git", "-C", "/repo", "log", "--format=%H", "--grep=HABUTAX_VERIF"], stdout=subprocess.PIPE, text=True).stdout.split()
    m = {
        "version": 1,
        "setup_cmd": "./setup.sh",
        "hooks": {"guard": "HABUTAX_VERIF", "enable": "export HABUTAX_VERIF=1 before importing habutax (./check does this); pure Python, nothing to build",
                  "baseline_off_cmd": "cd /repo && /venv/bin/python -m pytest -ra -q -p no:cacheprovider --timeout=900 --continue-on-collection-errors",
                  "source_commits": hooks_commits, "add_only": True},
        "engines": [{"name": "tlc", "path": "/verif/spec", "serves_properties": sorted(CLAIMED), "kind_free_text": "explicit TLA+ specification suite checked with TLC 1.8 (model checking, trace validation, oracle evaluation); harness in /verif/harness"},
                    {"name": "apalache", "path": "/verif/spec/apalache", "serves_properties": ["C06"], "kind_free_text": "Apalache 0.58 discharges the inductive invariant of the bounded-list dependency bookkeeping (thorough tier of C06 only; TLC explores the same model completely in both tiers)"}],
        "checks": checks,
        "not_applicable": [{"property_id": k, "reason": v} for k, v in sorted(TODO.items())],
        "notes": "See DESIGN.md. Exit codes: 0 held, 1 violation (VIOLATION line + replay file), 2 machinery failure.",
    }
    json.dump(m, open(os.path.join(ROOT, "MANIFEST.json"), "w"), indent=1)

if __name__ == "__main__":
    main()
