"""Facts from the bundled PDF templates (DESIGN 5.3): IRS forms carry an XFA template packet (field tree,
accessibility text, check-box export values, maxChars); NC forms have plain AcroForm dictionaries."""
import re
import zlib
import xml.etree.ElementTree as ET


def _streams(data):
    for m in re.finditer(rb"stream\r?\n", data):
        st = m.end()
        en = data.find(b"endstream", st)
        raw = data[st:en]
        try:
            yield zlib.decompress(raw)
        except Exception:      # noqa
            try:
                yield zlib.decompressobj().decompress(raw)
            except Exception:  # noqa
                continue


def _local(tag):
    return tag.split("}", 1)[1] if "}" in tag else tag


def parse_xfa(path):
    """-> {full field path: {kind, speak, maxchars, on (export value), items}} or None if the PDF has no XFA template"""
    data = open(path, "rb").read()
    tmpl = None
    for d in _streams(data):
        if d.lstrip().startswith(b"<template"):
            tmpl = d
            break
    if tmpl is None:
        return None
    root = ET.fromstring(tmpl)
    out = {}

    def walk(node, prefix, group=None):
        counters = {}
        for ch in list(node):
            tag = _local(ch.tag)
            if tag not in ("subform", "field", "exclGroup", "area", "subformSet"):
                continue
            name = ch.get("name")
            if tag == "area" or name is None:
                walk(ch, prefix, group)    # nameless containers are transparent in SOM expressions
                continue
            k = counters.get(name, 0)
            counters[name] = k + 1
            path_ = "%s%s[%d]" % (prefix + "." if prefix else "", name, k)
            if tag == "field":
                info = {"kind": "text", "speak": "", "maxchars": None, "on": None, "items": [], "parent": prefix, "base": name, "group": group}
                for el in ch.iter():
                    t = _local(el.tag)
                    if t == "speak" and el.text:
                        info["speak"] = " ".join(el.text.split())
                    elif t == "checkButton":
                        info["kind"] = "button"
                    elif t == "choiceList":
                        info["kind"] = "choice"
                    elif t == "comb" and el.get("numberOfCells"):
                        info["maxchars"] = int(el.get("numberOfCells"))
                    elif t == "text" and el.get("maxChars"):
                        info["maxchars"] = int(el.get("maxChars"))
                for items in ch.findall("{*}items"):
                    vals = [(x.text or "") for x in list(items)]
                    info["items"] = vals
                    if info["kind"] == "button" and vals:
                        info["on"] = vals[0]
                out[path_] = info
            else:
                walk(ch, path_, path_ if tag == "exclGroup" else group)
    walk(root, "")
    return out


def parse_acroform(path):
    """NC templates: -> {field name: {kind, maxlen, on (set of 'on' appearance states), opts}}"""
    data = open(path, "rb").read()
    out = {}
    objs = {int(m.group(1)): m.group(2) for m in re.finditer(rb"(\d+) 0 obj(.*?)endobj", data, re.S)}
    for m in re.finditer(rb"(\d+) 0 obj(.*?)endobj", data, re.S):
        body = m.group(2)
        t = re.search(rb"/T\s*\((.*?)(?<!\\)\)", body, re.S)
        ft = re.search(rb"/FT\s*/(\w+)", body)
        if not t or not ft:
            continue
        name = t.group(1).decode("latin1").replace("\\(", "(").replace("\\)", ")").replace("\\\\", "\\")
        kind = {"Tx": "text", "Btn": "button", "Ch": "choice"}.get(ft.group(1).decode(), "other")
        info = {"kind": kind, "maxlen": None, "on": [], "opts": [], "format": ""}
        # the format script of a text box says what it is meant to hold: AFSpecial_Format(3) is a social security number
        aa = re.search(rb"/AA\s*<<(.*?)>>", body, re.S)
        if aa:
            fref = re.search(rb"/F\s+(\d+) 0 R", aa.group(1))
            js = objs.get(int(fref.group(1)), b"") if fref else b""
            sp = re.search(rb"AFSpecial_Format\\?\((\d)", js)
            if sp:
                info["format"] = {"0": "zip", "1": "zip4", "2": "phone", "3": "ssn"}.get(sp.group(1).decode(), "")
            elif b"AFNumber_Format" in js:
                info["format"] = "number"
        ml = re.search(rb"/MaxLen\s+(\d+)", body)
        if ml:
            info["maxlen"] = int(ml.group(1))
        if kind == "button":
            ap = re.search(rb"/AP\s*<<(.*)", body, re.S)
            nn = re.search(rb"/N\s*<<(.*?)>>", ap.group(1), re.S) if ap else None
            if nn:
                info["on"] = sorted(set(x.decode("latin1") for x in re.findall(rb"/([^\s/<>\[\]]+)\s+\d+ 0 R", nn.group(1))) - {"Off"})
        if kind == "choice":
            opt = re.search(rb"/Opt\s*\[(.*?)\]\s*(/|>>)", body, re.S)
            if opt:
                info["opts"] = [x.decode("latin1") for x in re.findall(rb"\((.*?)(?<!\\)\)", opt.group(1))]
        out[name] = info
    return out


LINE_LABEL = re.compile(r"^(?:Line\s+)?(\d+[a-z]?)(?:\s*\(?([a-z])\)?)?[\.\s:,]", re.I)


def label_line(speak):
    """the line number in a field's accessibility text ('9. Add lines ...' -> '9'; 'Payments. 25. ... from: a. Form(s) W-2' -> '25a')"""
    if not speak:
        return None
    m = re.search(r"(?:^|[.?] )(?:Line )?(\d{1,2}[a-z]?)\. ", speak)
    if not m:
        return None
    lab = m.group(1).lower()
    if not lab[-1].isalpha():
        m2 = re.match(r"[^.]{0,60}: ([a-z])\. ", speak[m.end():])
        if m2:
            lab += m2.group(1)
    return lab


def mapped_line_number(name):
    """'25a' / '7_checkbox' / '1_amount_3' -> '25a' / '7' / '1'; None for lines that are not numbered"""
    m = re.match(r"^(\d{1,2}[a-z]?)(?:_|$)", name)
    return m.group(1) if m else None
