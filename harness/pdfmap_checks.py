"""C18: PDF mappings against the field trees parsed from the bundled templates (PdfMap.tla)."""
import json
import os
import re

import itertools

import common
import pdfparse
from static_checks import can_need_filing


def domain_of(field):
    """finite domain of a driving line: booleans and enumerations"""
    t = type(field).__name__
    if t == "BooleanField":
        return [True, False]
    if t == "EnumField":
        return list(field.enum().__members__.values()) + [None]
    if t == "IntegerField":
        return [0, 1, 2, 3]
    if t == "StringField":
        return ["", "x"]
    return None


_PCAT = {}


def free_inputs(year, line_obj):
    """names of the yes/no and choice inputs a line reads, if it is computed from inputs alone (forced execution); else None"""
    import pathexplore
    if year not in _PCAT:
        _PCAT[year] = pathexplore.Catalogue(year)
        pathexplore._patch_threshold()
        pathexplore._patch_float(year)
    cat = _PCAT[year]
    try:
        form = cat.form(line_obj.form().name())
        field = next(x for x in form.fields() if x.base_name() == line_obj.base_name())
        rec = pathexplore.explore_line(cat, form, field, max_paths=200)
    except Exception:      # noqa
        return None
    if any(k != "in" for (k, _n) in rec["refs"]):
        return None
    out = set()
    for (_k, n) in rec["refs"]:
        for dec, _o in rec["gate_obs"]:
            if n in dec:
                out.add(n)
                break
    return out


def line_texts(year, line_obj):
    """text values a line can yield (forced execution; an SSN input answers 123456789, free text answers abc or nothing)"""
    import pathexplore
    if year not in _PCAT:
        _PCAT[year] = pathexplore.Catalogue(year)
        pathexplore._patch_threshold()
        pathexplore._patch_float(year)
    cat = _PCAT[year]
    try:
        form = cat.form(line_obj.form().name())
        field = next(x for x in form.fields() if x.base_name() == line_obj.base_name())
        return pathexplore.explore_line(cat, form, field, max_paths=60)["texts"]
    except Exception:      # noqa
        return []


def facts():
    import habutax.forms as F
    exc = json.load(open(os.path.join(common.ROOT, "data", "pdfmap_exceptions.json")))["label_exceptions"]
    excused = set((e["form"], e["line"], e["label"]) for e in exc)
    maps, dups, groups, forms = [], [], [], []
    for year in sorted(F.available_forms):
        classes = {c.form_name: c for c in F.available_forms[year]}
        all_lines = {}
        for c in F.available_forms[year]:
            inst = c.valid_instances[0] if hasattr(c, "valid_instances") else None
            try:
                fo = c(instance=inst)
            except Exception:    # noqa
                continue
            all_lines[c.form_name] = {x.base_name(): x for x in fo.fields()}
        for cls in F.available_forms[year]:
            inst = cls.valid_instances[0] if hasattr(cls, "valid_instances") else None
            try:
                f = cls(instance=inst)
            except Exception:     # noqa
                continue
            fileable = can_need_filing(f)
            pdf = f.pdf_file()
            has = bool(pdf) and os.path.exists(pdf)
            forms.append({"year": year, "form": cls.form_name, "fileable": fileable, "has_template": has, "nmaps": len(f.pdf_fields())})
            if not has:
                continue
            tree = pdfparse.parse_xfa(pdf)
            acro = None
            if tree is None:
                acro = pdfparse.parse_acroform(pdf)
            seen = {}
            drivers = {}
            for pf in f.pdf_fields():
                seen[pf.pdf_field_name] = seen.get(pf.pdf_field_name, 0) + 1
                ln = pf.field_name
                lform, lbase = (ln.split(".", 1) if "." in ln else (cls.form_name, ln))
                lform_b = lform.split(":")[0]
                line_obj = all_lines.get(lform_b, {}).get(lbase)
                kind = {"TextPDFField": "text", "ButtonPDFField": "button", "ChoicePDFField": "choice"}.get(type(pf).__name__, "other")
                rec = {"mid": len(maps) + 1, "year": year, "form": cls.form_name, "target": pf.pdf_field_name, "line": ln, "line_exists": line_obj is not None,
                       "kind": kind, "maxlen": getattr(pf, "max_length", None) if getattr(pf, "max_length", None) is not None else -1,
                       "truev": str(getattr(pf, "_true_value", "")), "choices": [str(c) for c in getattr(pf, "_choices", [])],
                       "t_exists": False, "t_kind": "", "t_max": -1, "t_on": [], "t_opts": [], "label": "", "lineno": "", "excused": False, "probes": [],
                       "t_format": "", "texts": []}
                # a box inside row N of a template table (".RowN[0]."), filled from a line that belongs to a numbered entry ("dependent_1_odc")
                mrow = re.search(r"\.Row(\d+)\[0\]\.", pf.pdf_field_name)
                midx = re.search(r"_(\d+)(_|$)", lbase)
                rec["row"] = int(mrow.group(1)) if mrow else 0
                rec["idx"] = int(midx.group(1)) if midx else -1
                if tree is not None and pf.pdf_field_name in tree:
                    t = tree[pf.pdf_field_name]
                    rec.update({"t_exists": True, "t_kind": t["kind"], "t_max": t["maxchars"] if t["maxchars"] is not None else -1,
                                "t_on": [t["on"]] if t["on"] is not None else [], "t_opts": t["items"] if t["kind"] == "choice" else [],
                                "label": pdfparse.label_line(t["speak"]) or "", "lineno": pdfparse.mapped_line_number(lbase) or ""})
                    gkey = (t["parent"], t["base"]) if t["kind"] == "button" else None
                    sp = (t["speak"] or "").lower()
                    if kind == "text" and line_obj is not None and getattr(pf, "_value_fn", None) is None and \
                            re.search(r"social security (number|no\.)|\bssn\b", sp) and not re.search(r"name|address|occupation|relationship", sp):
                        rec["t_format"] = "ssn"
                        rec["texts"] = [[ord(c) for c in x] for x in line_texts(year, line_obj) if x.strip()]
                elif acro is not None and pf.pdf_field_name in acro:
                    t = acro[pf.pdf_field_name]
                    rec.update({"t_exists": True, "t_kind": t["kind"], "t_max": t["maxlen"] if t["maxlen"] is not None else -1, "t_on": t["on"], "t_opts": t["opts"]})
                    if t.get("format") == "ssn" and kind == "text" and line_obj is not None and getattr(pf, "_value_fn", None) is None:
                        # the template formats this box as a social security number: what can the driving line put there?
                        rec["t_format"] = "ssn"
                        rec["texts"] = [[ord(c) for c in x] for x in line_texts(year, line_obj) if x.strip()]
                    mm = re.search(r"_li(\d{1,2}[a-z]?)(?:_|$)", pf.pdf_field_name)      # NC field names carry the line number: y_d400wf_li12a_pg1_good
                    if mm:
                        rec["label"] = mm.group(1).lower()
                        rec["lineno"] = pdfparse.mapped_line_number(lbase) or ""
                    m = re.match(r"^(.*?)(yes|no)$", pf.pdf_field_name, re.I)
                    gkey = ("nc", m.group(1)) if (t["kind"] == "button" and m) else None
                    if gkey is not None:
                        # the yes and the no box of one question usually share their name up to yes/no (rs1yes / rs1no); where
                        # the other box of that name does not exist, the digit numbers the BOX (v1yes / v2no)
                        other = m.group(1) + ("no" if m.group(2).lower() == "yes" else "yes")
                        if other not in acro:
                            gkey = ("nc", re.sub(r"\d$", "", m.group(1)) + "#")
                    if t["kind"] == "button" and re.match(r"^y_d400wf_fstat\d$", pf.pdf_field_name):
                        gkey = ("nc", "y_d400wf_fstat")
                else:
                    gkey = None
                rec["excused"] = (cls.form_name, lbase, rec["label"]) in excused
                if kind == "text" and getattr(pf, "_value_fn", None) is None:
                    lim = rec["t_max"] if rec["t_max"] >= 0 else rec["maxlen"]
                    if lim >= 0:
                        class Echo(object):
                            def to_string(self, v):
                                return v
                        for n in sorted(set(x for x in (lim - 1, lim, lim + 1, lim + 2) if x >= 0)):
                            for text in set(["9" * n, ("-" + "9" * (n - 1)) if n >= 1 else "", ("A" * n), ("A  " * n)[:n]]):
                                if len(text) != n:
                                    continue
                                try:
                                    pf.value(text, Echo())
                                    outc = "ok"
                                except Exception as e:      # noqa
                                    outc = type(e).__name__
                                rec["probes"].append({"len": n, "minus": text.startswith("-"), "outcome": outc})
                maps.append(rec)
                if gkey is not None and kind == "button":
                    drivers.setdefault(gkey, []).append((pf, ln, line_obj))
            for tgt, n in seen.items():
                if n > 1:
                    dups.append({"year": year, "form": cls.form_name, "target": tgt, "n": n})
            for gkey, members in drivers.items():
                if len(members) < 2:
                    continue
                lines = sorted(set(ln for (_pf, ln, _lo) in members))
                if any(lo is None for (_pf, _ln, lo) in members):
                    continue
                if len(lines) != 1:
                    # the boxes of one question driven by DIFFERENT lines: they can be on together if those lines can take
                    # the offending values together.  Decided only where that is certain: every driving line is computed
                    # from inputs alone and has a yes/no or choice input of its own that the others do not read.
                    if gkey[0] != "nc":
                        continue
                    by_line = {}
                    for (_pf, ln, lo) in members:
                        by_line[ln] = lo
                    reads = {ln: free_inputs(year, lo) for ln, lo in by_line.items()}
                    if any(r is None for r in reads.values()) or \
                            any(not (reads[a] - set().union(*[reads[b] for b in reads if b != a])) for a in reads):
                        continue
                    doms = {ln: domain_of(lo) for ln, lo in by_line.items()}
                    if any(d is None for d in doms.values()):
                        continue
                    rows = []
                    names = sorted(by_line)
                    for combo in itertools.product(*[doms[n] for n in names]):
                        val = dict(zip(names, combo))
                        on = []
                        for (pf, ln, lo) in members:
                            try:
                                if pf.value(val[ln], lo) != "Off":
                                    on.append(pf.pdf_field_name)
                            except Exception as e:     # noqa
                                on.append("ERROR:" + type(e).__name__)
                        rows.append({"value": ", ".join("%s=%s" % (n, val[n]) for n in names), "on": on})
                    groups.append({"year": year, "form": cls.form_name, "group": "%s/%s" % gkey, "line": ",".join(names), "rows": rows})
                    continue
                dom = domain_of(members[0][2])
                if dom is None:
                    continue
                rows = []
                for v in dom:
                    on = []
                    for (pf, ln, lo) in members:
                        try:
                            if pf.value(v, lo) != "Off":
                                on.append(pf.pdf_field_name)
                        except Exception as e:     # noqa
                            on.append("ERROR:" + type(e).__name__)
                    rows.append({"value": str(v), "on": on})
                groups.append({"year": year, "form": cls.form_name, "group": "%s/%s" % gkey, "line": lines[0], "rows": rows})
    return {"maps": maps, "dups": dups, "groups": groups, "forms": forms}


def c18(tier):
    rep = common.Reporter("C18", tier)
    fx = facts()
    work = common.mkwork()
    try:
        path = os.path.join(work, "map.json")
        json.dump(fx, open(path, "w"))
        cfgp = os.path.join(work, "m.cfg")
        open(cfgp, "w").write("SPECIFICATION Spec\nCHECK_DEADLOCK FALSE\n")
        res = common.run_tlc(os.path.join(common.SPEC, "PdfMap.tla"), cfgp, cwd=work, workers=1, env={"HV_MAP_FILE": path}, timeout=1800)
    finally:
        common.rmwork(work)
    n = len(fx["maps"]) + len(fx["dups"]) + len(fx["groups"]) + len(fx["forms"])
    if res.rc != 0 or res.distinct != n + 1:
        raise common.MachineryError("PdfMap.tla failed (rc=%s, %d states for %d facts)\n%s" % (res.rc, res.distinct, n, res.error_excerpt(40)))
    for m in re.finditer(r'^"C18\|(map|dup|group|form)\|(\d+)\|(.*)\|"$', res.out, re.M):
        kind, idx, msg = m.group(1), int(m.group(2)) - 1, m.group(3)
        if kind == "map":
            r = fx["maps"][idx]
            rep.violation("map:%d:%s:%s<-%s:%s" % (r["year"], r["form"], r["target"], r["line"], msg[:40]), msg, {"kind": "pdf-mapping", "fact": r})
        elif kind == "dup":
            r = fx["dups"][idx]
            rep.violation("dup:%d:%s:%s" % (r["year"], r["form"], r["target"]), msg, {"kind": "pdf-mapping-dup", "fact": r})
        elif kind == "group":
            r = fx["groups"][idx]
            rep.violation("group:%d:%s:%s" % (r["year"], r["form"], r["group"]), msg + " " + json.dumps(r["rows"]), {"kind": "pdf-group", "fact": r})
        else:
            r = fx["forms"][idx]
            rep.violation("form:%d:%s:%s" % (r["year"], r["form"], msg[:40]), msg, {"kind": "pdf-form", "fact": r})
    cov = {"programs": len(fx["maps"]), "disagreements_checked": n, "samples": [fx["maps"][30]],
           "mappings": len(fx["maps"]), "mappings_with_template_line_label": sum(1 for m in fx["maps"] if m["label"] and m["lineno"]),
           "irs_mappings": sum(1 for m in fx["maps"] if not m["form"].startswith("nc_")), "nc_mappings": sum(1 for m in fx["maps"] if m["form"].startswith("nc_")),
           "exclusive_groups": len(fx["groups"]), "forms": len(fx["forms"]), "label_exceptions_used": sum(1 for m in fx["maps"] if m["excused"]),
           "states": res.distinct, "exhaustive": True,
           "explanation": "field trees (XFA template packets of the IRS PDFs, AcroForm dictionaries of the NC PDFs) are parsed from the bundled templates; TLC evaluates PdfMap.tla on every mapping, exclusive group and form"}
    return rep, "translation_validation", cov, ["PDF parsing (stdlib inflate + XML / regular expressions) is trusted; fields whose accessibility text carries no line number are only checked for existence, kind, export value and limits",
                                                  "data/pdfmap_exceptions.json lists reviewed cases where the template's accessibility text itself names another line"]
