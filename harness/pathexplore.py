"""Forced execution of every line definition of the shipped forms along all syntactic paths
(DESIGN 5.3, in place of a purely syntactic AST walk).

Each line function is called with mock input / value accessors.  Booleans, small integers, enumeration
members and texts are chosen by a depth-first oracle over decision sequences; money amounts are
`TopNum` objects whose comparisons are oracle decisions too.  So every `if`, conditional expression,
loop count and short-circuit is driven both ways irrespective of which real inputs would make the path
execute.  The run records every name the path referred to (inputs, lines, forms, thresholds) and how
the path ended (value / not-implemented / exception).  The facts go to TLC (Catalogue.tla).
"""
import math
import random


class PathLimit(Exception):
    pass


class Oracle(object):
    def __init__(self, rng=None):
        self.prefix = []
        self.arity = []
        self.pos = 0
        self.rng = rng          # when set: random decisions beyond the prefix (sampling instead of enumeration)

    def reset(self):
        self.pos = 0
        self.run = getattr(self, "run", 0) + 1
        self.wrng = random.Random(self.run)

    def witness(self):
        """concrete stand-in for an unknown amount; varies from path to path but is not a branching decision"""
        return self.wrng.choice((0.0, 0.0, 52345.67, 250001.37, 1234.56))

    def choose(self, n):
        if n <= 1:
            return 0
        if self.pos < len(self.prefix):
            c = self.prefix[self.pos]
        else:
            c = 0 if self.rng is None else self.rng.randrange(n)
            self.prefix.append(c)
            self.arity.append(n)
        self.pos += 1
        if self.pos > 400:
            raise PathLimit()
        return c

    def advance(self):
        # drop decisions not reached in the last run
        del self.prefix[self.pos:]
        del self.arity[self.pos:]
        while self.prefix:
            if self.prefix[-1] + 1 < self.arity[-1]:
                self.prefix[-1] += 1
                return True
            self.prefix.pop()
            self.arity.pop()
        return False


def _w(x):
    if isinstance(x, TopNum):
        return x.w
    try:
        return float(x)
    except Exception:     # noqa
        return 0.0


CONSTS = None    # when a set: every plain number that meets an unknown amount in arithmetic or comparison is added


def _note(x):
    if CONSTS is not None and isinstance(x, (int, float)) and not isinstance(x, (bool, TF, TI)):
        CONSTS.add(float(x))


class TF(float):
    """what float(<unknown amount>) gives: a concrete witness that still reports the constants it meets"""

    def _b(name):
        f = getattr(float, name)

        def op(self, other):
            _note(other)
            r = f(self, float(other) if isinstance(other, (int, float)) else other)
            return TF(r) if isinstance(r, float) else r
        return op
    for _n in ("__add__", "__radd__", "__sub__", "__rsub__", "__mul__", "__rmul__", "__truediv__", "__rtruediv__"):
        locals()[_n] = _b(_n)

    def _c(name):
        f = getattr(float, name)

        def op(self, other):
            _note(other)
            return f(self, other)
        return op
    for _n in ("__lt__", "__le__", "__gt__", "__ge__", "__eq__", "__ne__"):
        locals()[_n] = _c(_n)
    __hash__ = float.__hash__


class TI(int):
    """what int(<unknown amount>) gives (a witness, never reported as a program constant)"""


BUDGET = 48     # oracle decisions per path spent on amount comparisons; afterwards witnesses decide


class TopNum(object):
    """an unknown amount: comparisons are oracle decisions (both ways), arithmetic stays unknown.  Every TopNum also
    carries a concrete witness so that long table scans terminate: once a path has used BUDGET decisions, further
    comparisons are evaluated on the witnesses."""
    __slots__ = ("o", "w")

    def __init__(self, o, w=None):
        self.o = o
        self.w = o.witness() if w is None else w

    def _bin(f):
        def op(self, other):
            _note(other)
            try:
                return TopNum(self.o, f(self.w, _w(other)))
            except (ZeroDivisionError, OverflowError, ValueError):
                return TopNum(self.o, 0.0)
        return op

    def _rbin(f):
        def op(self, other):
            _note(other)
            try:
                return TopNum(self.o, f(_w(other), self.w))
            except (ZeroDivisionError, OverflowError, ValueError):
                return TopNum(self.o, 0.0)
        return op
    __add__ = _bin(lambda a, b: a + b); __radd__ = _rbin(lambda a, b: a + b)
    __sub__ = _bin(lambda a, b: a - b); __rsub__ = _rbin(lambda a, b: a - b)
    __mul__ = _bin(lambda a, b: a * b); __rmul__ = _rbin(lambda a, b: a * b)
    __truediv__ = _bin(lambda a, b: a / b); __rtruediv__ = _rbin(lambda a, b: a / b)
    __floordiv__ = _bin(lambda a, b: a // b); __rfloordiv__ = _rbin(lambda a, b: a // b)
    __mod__ = _bin(lambda a, b: a % b); __rmod__ = _rbin(lambda a, b: a % b)
    __pow__ = _bin(lambda a, b: a ** b); __rpow__ = _rbin(lambda a, b: a ** b)

    def __neg__(self):
        return TopNum(self.o, -self.w)

    def __pos__(self):
        return self

    def __abs__(self):
        return TopNum(self.o, abs(self.w))

    def __round__(self, n=None):
        return TopNum(self.o, round(self.w, n or 0))

    def __ceil__(self):
        return TopNum(self.o, float(math.ceil(self.w)))

    def __floor__(self):
        return TopNum(self.o, float(math.floor(self.w)))

    def __trunc__(self):
        return TopNum(self.o, float(math.trunc(self.w)))

    def _cmp(f):
        def op(self, other):
            _note(other)
            if self.o.pos >= BUDGET:
                return f(self.w, _w(other))
            return self.o.choose(2) == 1
        return op
    __lt__ = _cmp(lambda a, b: a < b); __le__ = _cmp(lambda a, b: a <= b)
    __gt__ = _cmp(lambda a, b: a > b); __ge__ = _cmp(lambda a, b: a >= b)
    __eq__ = _cmp(lambda a, b: a == b); __ne__ = _cmp(lambda a, b: a != b)

    def __bool__(self):
        if self.o.pos >= BUDGET:
            return self.w != 0
        return self.o.choose(2) == 1

    def __float__(self):
        return TF(self.w)

    def __int__(self):
        return TI(int(self.w))

    def __index__(self):
        return (0, 1, 2)[self.o.choose(3)]

    def __hash__(self):
        return 1

    def __format__(self, spec):
        return "0"

    def __str__(self):
        return "0"


class TopAny(TopNum):
    """stands for the value of a name that does not resolve (exploration continues)"""

    def __getattr__(self, n):
        if n.startswith("__"):
            raise AttributeError(n)
        return TopAny(self.o, 0.0)

    def __call__(self, *a, **k):
        return TopAny(self.o, 0.0)

    def __getitem__(self, k):
        return TopAny(self.o, 0.0)


class Catalogue(object):
    def __init__(self, year):
        import habutax.forms as F
        self.year = year
        self.classes = {c.form_name: c for c in F.available_forms[year]}
        self.class_list = list(F.available_forms[year])
        self.cache = {}

    def form(self, full, solver=None):
        """fresh or cached instance of form `full` ('w-2:0') with the mock solver attached; KeyError if not catalogued"""
        base = full.split(":")[0]
        if base not in self.classes:
            raise KeyError(full)
        if full not in self.cache:
            parts = full.split(":")
            inst = parts[1] if len(parts) > 1 else None
            self.cache[full] = self.classes[base](instance=inst, solver=solver)
        return self.cache[full]


def _patch_threshold():
    """Form.threshold() results count as constants used by the line that looks them up"""
    from habutax.form import Form
    if getattr(Form.threshold, "_hv", False):
        return
    orig = Form.threshold

    def threshold(self, name, requested_key=None):
        r = orig(self, name, requested_key=requested_key)
        _note(r)
        return r
    threshold._hv = True
    Form.threshold = threshold


def _patch_float(year):
    """float(<unknown amount>) inside the form modules yields a TF witness (the builtin would strip the subclass)"""
    import builtins
    import sys

    def hv_float(x=0.0):
        if isinstance(x, TopNum):
            return TF(x.w)
        return builtins.float(x)
    prefix = "habutax.forms.ty%d" % year
    for name, mod in list(sys.modules.items()):
        if name.startswith(prefix) and mod is not None:
            mod.__dict__["float"] = hv_float


class MockSolver(object):
    def __init__(self, cat, log):
        self.cat, self.log = cat, log

        class Forms(object):
            def __getitem__(s2, name):
                self.log.add(("form", name))
                return self.cat.form(name, self)

            def __contains__(s2, name):
                return name.split(":")[0] in self.cat.classes
        self.forms = Forms()

    def __bool__(self):
        return True


class Accessor(object):
    def __init__(self, kind, form, cat, solver, oracle, log, memo, decisions, pin=None):
        self.kind, self.form, self.cat, self.solver = kind, form, cat, solver
        self.o, self.log, self.memo, self.dec = oracle, log, memo, decisions
        self.pin = pin or {}

    def __getitem__(self, key):
        if not isinstance(key, str):
            self.log.add(("badkey", repr(key)))
            return TopAny(self.o, 0.0)
        full = key if "." in key else "%s.%s" % (self.form.name(), key)
        self.log.add((self.kind, full))
        mk = (self.kind, full)
        if mk in self.memo:
            return self.memo[mk]
        if self.kind == "in" and full in self.pin:
            val = self.pin[full]
            self.dec[full] = str(val)
            self.memo[mk] = val
            return val
        val = self.make(full)
        self.memo[mk] = val
        return val

    def __iter__(self):
        return iter(())

    def __len__(self):
        return 0

    def get(self, key, default=None):
        return self[key]

    def __contains__(self, key):
        return True

    def make(self, full):
        if full.count(".") != 1:
            return TopAny(self.o, 0.0)
        fname, base = full.split(".")
        try:
            f = self.cat.form(fname, self.solver)
        except KeyError:
            return TopAny(self.o, 0.0)
        except Exception:    # noqa  form cannot be instantiated: C17's business
            return TopAny(self.o, 0.0)
        o = self.o
        if self.kind == "in":
            spec = next((x for x in f.inputs() if x.base_name() == base), None)
            if spec is None:
                return TopAny(o, 0.0)
            t = type(spec).__name__
            if t == "BooleanInput":
                v = (False, True)[o.choose(2)]
                self.dec[full] = v
                return v
            if t == "IntegerInput":
                if "dependents" in base:
                    return (0, 1, 2, 3, 4)[o.choose(5)]
                return (0, 1, 2)[o.choose(3)]
            if t == "FloatInput":
                return TopNum(o)
            if t == "EnumInput":
                ms = list(spec.enum.__members__.values()) + ([None] if spec.allow_empty else [])
                v = ms[o.choose(len(ms))]
                self.dec[full] = str(v)
                return v
            if t == "SSNInput":
                return "123456789"
            return ("abc", "")[o.choose(2)]
        spec = next((x for x in f.fields() if x.base_name() == base), None)
        if spec is None:
            return TopAny(o, 0.0)
        t = type(spec).__name__
        if t == "BooleanField":
            return (False, True)[o.choose(2)]
        if t == "IntegerField":
            return TopNum(o, float((0, 1, 2)[o.choose(3)]))
        if t == "FloatField":
            return TopNum(o)
        if t == "EnumField":
            ms = list(spec.enum().__members__.values()) + [None]
            return ms[o.choose(len(ms))]
        if "ssn" in base:
            return ("123456789", "")[o.choose(2)]       # a text line that carries a social security number (as SSNInput answers)
        return ("abc", "")[o.choose(2)]


ARTIFACT = (TypeError, ValueError, ZeroDivisionError, OverflowError, IndexError, PathLimit)


def explore_line(cat, form, field, max_paths=3000, rng=None, pin=None, extra_random=0):
    """-> dict(refs=set, outcomes={kind: count}, errors=[(cls, msg, decisions)], paths=n, truncated=bool, gatepaths=[...])"""
    from habutax.fields import FieldNotImplemented
    oracle = Oracle()
    global CONSTS
    refs, errors, outcomes = set(), [], {}
    consts = {}       # filing status decision (or "-") -> set of plain numbers met by unknown amounts / returned / looked up
    gate_obs = []     # (decisions dict, outcome)
    texts = set()     # text values returned on some path (at most 40)
    n = 0
    truncated = False
    fn = getattr(field, "_value", None)
    if fn is None:
        return {"refs": refs, "outcomes": {}, "errors": [], "paths": 0, "truncated": False, "gate_obs": []}
    while True:
        oracle.reset()
        log, memo, dec = set(), {}, {}
        solver = MockSolver(cat, log)
        form._solver = solver
        mi = Accessor("in", form, cat, solver, oracle, log, memo, dec, pin)
        mv = Accessor("ln", form, cat, solver, oracle, log, memo, dec, pin)
        CONSTS = set()
        try:
            r = fn(mi, mv)
            out = "value"
            if isinstance(r, str) and len(texts) < 40:
                texts.add(r)
            if isinstance(r, (int, float)) and not isinstance(r, (bool, TF, TI)):
                CONSTS.add(float(r))
        except FieldNotImplemented as e:
            out = "unimpl"
            if e.field_name != field.name():
                errors.append(("ForeignNotImplemented", "reported for %s" % e.field_name, dict(dec)))
        except ARTIFACT as e:
            out = "artifact:" + type(e).__name__
        except RecursionError:
            out = "artifact:RecursionError"
        except BaseException as e:      # noqa
            out = "error:" + type(e).__name__
            errors.append((type(e).__name__, str(e)[:160], dict(dec)))
        outcomes[out] = outcomes.get(out, 0) + 1
        refs |= log
        consts.setdefault(dec.get("1040.filing_status", "-"), set()).update(CONSTS)
        CONSTS = None
        if len(gate_obs) < 20000:
            gate_obs.append((dec, out))
        n += 1
        if oracle.rng is not None:
            extra_random -= 1
            if extra_random <= 0:
                break
            oracle = Oracle(oracle.rng)
            continue
        if not oracle.advance():
            break
        if n >= max_paths:
            truncated = True
            if extra_random > 0:
                oracle = Oracle(rng or random.Random(n))
                continue
            break
    return {"refs": refs, "outcomes": outcomes, "errors": errors, "paths": n, "truncated": truncated, "gate_obs": gate_obs, "consts": consts, "texts": sorted(texts)}


def explore_year(year, max_paths=3000):
    """-> list of per-line records for every form x allowed instance of the year"""
    cat = Catalogue(year)
    _patch_threshold()
    _patch_float(year)
    out = []
    for cls in cat.class_list:
        insts = list(getattr(cls, "valid_instances", [])) or [None]
        if not hasattr(cls, "valid_instances") and issubclass_inputform(cls):
            insts = ["0"]
        for inst in insts:
            full = cls.form_name if inst is None else "%s:%s" % (cls.form_name, inst)
            try:
                form = cat.form(full)
            except Exception as e:      # noqa
                out.append({"form": full, "line": None, "instantiate_error": repr(e)})
                continue
            for field in form.fields():
                rec = explore_line(cat, form, field, max_paths=max_paths)
                rec["form"] = full
                rec["line"] = field.base_name()
                rec["year"] = year
                out.append(rec)
    return out, cat


def issubclass_inputform(cls):
    from habutax.form import InputForm
    try:
        return issubclass(cls, InputForm)
    except TypeError:
        return False
