"""C02: which numeric lines of a year have an instruction rule (from a template or hand-transcribed) and which have none.
    HABUTAX_VERIF=1 PYTHONPATH=/repo /venv/bin/python harness/c02_coverage.py [year]"""
import sys
sys.path.insert(0, __import__("os").path.dirname(__import__("os").path.abspath(__file__)))
import common, linegen, hand_lines, scenarios
import habutax.forms as F
from habutax.form import InputForm
for year in scenarios.YEARS:
    te,_ = linegen.template_equations(year)
    he = hand_lines.equations(year)
    cov = {(e["form"], e["line"]) for e in te+he}
    tot=0; miss={}
    for cls in F.available_forms[year]:
        if issubclass(cls, InputForm): continue
        inst = cls.valid_instances[0] if hasattr(cls, "valid_instances") else None
        f = cls(instance=inst)
        for x in f.fields():
            if type(x).__name__ in ("FloatField","IntegerField"):
                tot+=1
                if (cls.form_name, x.base_name()) not in cov:
                    miss.setdefault(cls.form_name, []).append(x.base_name())
    print(year, "numeric lines", tot, "with equation", tot-sum(len(v) for v in miss.values()))
    if len(sys.argv) > 1 and str(year) == sys.argv[1]:
        for k,v in miss.items(): print("  ",k,len(v)," ".join(v))
