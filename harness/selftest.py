"""Self-test of the machinery (DESIGN 4.3): apply a fixed list of source mutants to a scratch copy
of the repository (outside /repo and /verif) and require the matching property check to raise
an alarm, and the others named in `quiet` to stay quiet.

    /venv/bin/python harness/selftest.py [name ...]
"""
import os
import shutil
import subprocess
import sys
import tempfile

HERE = os.path.dirname(os.path.dirname(os.path.abspath(__file__)))

MUTANTS = [
    # name, file, old, new, properties expected to alarm
    ("verdict_ignores_unimplemented", "habutax/solver.py",
     "                and len(self._unimplemented_fields) == 0:", "                and True:", ["C01"]),
    ("verdict_ignores_field_tracker", "habutax/solver.py",
     "        if not self._field_dependencies.has_unmet() \\\n                and not self._input_dependencies.has_unmet()",
     "        if True \\\n                and not self._input_dependencies.has_unmet()", ["C01"]),
    ("swallow_not_implemented", "habutax/solver.py",
     "            self._unimplemented_fields.append(fni.field_name)", "            pass", ["C01", "C06"]),
    ("prompt_after_refusal", "habutax/solver.py",
     "                    if self._refused_input:\n                        break", "                    pass", ["C13"]),
    ("drop_second_waiter", "habutax/solver.py",
     "            self._unmet[dependency_name].append(dependent)", "            self._unmet[dependency_name] = [dependent]", ["C06"]),
    ("meet_skipped_for_zero", "habutax/solver.py",
     "            self._field_dependencies.meet(field.name())", "            if self._v[field.name()]: self._field_dependencies.meet(field.name())", ["C06"]),
    ("optional_lines_scheduled", "habutax/solver.py",
     "        self._add_unattempted(new_form.required_fields())\n        self._solving_fields |= set([f.name() for f in new_form.required_fields()])",
     "        self._add_unattempted(new_form.fields())\n        self._solving_fields |= set([f.name() for f in new_form.fields()])", ["C04"]),
    ("ask_all_inputs_of_form", "habutax/solver.py",
     "        except inputs.MissingInput as mi:\n            self._input_dependencies.add_unmet(mi.input_name, field)",
     "        except inputs.MissingInput as mi:\n            self._input_dependencies.add_unmet(mi.input_name, field)\n            for other in field.form().inputs():\n                if not self._i.provides(other) and other.name() not in self._input_dependencies._unmet:\n                    self._input_dependencies.add_unmet(other.name(), field)", ["C13"]),
]


def run_one(name, path, old, new, expect, props):
    tmp = tempfile.mkdtemp(prefix="hv_mut_")
    try:
        repo = os.path.join(tmp, "repo")
        shutil.copytree("/repo", repo, ignore=shutil.ignore_patterns(".git", "*.pdf", "__pycache__"))
        fp = os.path.join(repo, path)
        src = open(fp).read()
        if old not in src:
            print("MUTANT %s: pattern not found (source changed) -- skipped" % name)
            return None
        open(fp, "w").write(src.replace(old, new, 1))
        env = dict(os.environ, HABUTAX_REPO=repo, HV_EVID_DIR=os.path.join(tmp, "evidence"), HV_REPLAY_DIR=os.path.join(tmp, "replays"))
        alarms = []
        for pid in props:
            p = subprocess.run([os.path.join(HERE, "check"), pid, "--tier", "quick"], env=env, stdout=subprocess.PIPE,
                               stderr=subprocess.STDOUT, text=True)
            if p.returncode == 1:
                alarms.append(pid)
            elif p.returncode != 0:
                alarms.append(pid + "(rc=%d)" % p.returncode)
        ok = all(e in alarms for e in expect)
        print("MUTANT %-32s expected %-12s alarms %-30s %s" % (name, ",".join(expect), ",".join(alarms), "DETECTED" if ok else "MISSED"))
        return ok
    finally:
        shutil.rmtree(tmp, ignore_errors=True)


def main():
    want = sys.argv[1:]
    props = os.environ.get("SELFTEST_PROPS", "C01,C03,C04,C05,C06,C13").split(",")
    bad = 0
    for (name, path, old, new, expect) in MUTANTS:
        if want and name not in want:
            continue
        r = run_one(name, path, old, new, expect, props)
        if r is False:
            bad += 1
    # restore evidence for the unchanged tree is the caller's job (checks rewrite evidence on every run)
    sys.exit(1 if bad else 0)


if __name__ == "__main__":
    main()
