"""C19 (fill step) and C14 (a written solution reads back) through the real PDF filler with a stand-in pdftk."""
import argparse
import configparser
import itertools
import json
import os
import random
import re

import common
import scenarios

ALPHABET = "()\\\"'a "


def bytes_of(text):
    return list(text.encode("utf-8"))


class FakePdftk(object):
    """replaces subprocess.run inside habutax.pdf_filler: records argv and the form-data files"""

    def __init__(self):
        self.fills = []      # (template path, fdf bytes, output pdf)
        self.cat = None

    def __call__(self, cmd, check=True, **kw):
        if "fill_form" in cmd:
            fdf = cmd[cmd.index("fill_form") + 1]
            self.fills.append((cmd[1], open(fdf, "rb").read(), cmd[cmd.index("output") + 1], list(cmd)))
            open(cmd[cmd.index("output") + 1], "wb").write(b"%PDF-fake")
        elif "cat" in cmd:
            self.cat = list(cmd)

        class R(object):
            returncode = 0
        return R()


PDF_WS = b"\x00\t\n\x0c\r "


def scan_fields(data):
    """the field dictionaries of the /Fields array, each as its bytes from "<<" to the matching ">>".  Only finds the
    boundaries (strings are skipped over: a backslash hides the next byte, parentheses nest); PdfString.tla decodes them.
    Returns None when the array cannot be delimited."""
    try:
        i = data.index(b"/Fields") + len(b"/Fields")
    except ValueError:
        return None
    n = len(data)

    def ws(j):
        while j < n and data[j] in PDF_WS:
            j += 1
        return j
    i = ws(i)
    if i >= n or data[i:i + 1] != b"[":
        return None
    i += 1
    out = []
    while True:
        i = ws(i)
        if i >= n:
            return None
        if data[i:i + 1] == b"]":
            return out
        if data[i:i + 2] != b"<<":
            return None
        start, depth = i, 0
        while i < n:
            c = data[i:i + 1]
            if c == b"(":
                d, i = 1, i + 1
                while i < n and d > 0:
                    c2 = data[i:i + 1]
                    if c2 == b"\\":
                        i += 1
                    elif c2 == b"(":
                        d += 1
                    elif c2 == b")":
                        d -= 1
                    i += 1
                continue
            if data[i:i + 2] == b"<<":
                depth += 1
                i += 2
                continue
            if data[i:i + 2] == b">>":
                depth -= 1
                i += 2
                if depth == 0:
                    break
                continue
            i += 1
        if depth != 0:
            return None
        out.append(data[start:i])


def split_entries(data):
    got = scan_fields(data)
    if got is None:
        raise common.MachineryError("cannot find the /Fields array of the form-data file")
    return got


def whole_array(data):
    """everything between the "[" after /Fields and the last "]" of the file (used for a file with ONE entry, so that a
    string that swallows or sheds bytes is judged by the specification and not by the splitter)"""
    a = data.index(b"[", data.index(b"/Fields")) + 1
    return data[a:data.rindex(b"]")]


def entry_name(e):
    """field name of an entry (only to pair it with the mapping; the specification decodes it again)"""
    m = re.search(rb"/T\s*\(((?:\\.|[^\\()])*)\)", e, re.S)
    if not m:
        return None
    return re.sub(rb"\\(.)", rb"\1", m.group(1), flags=re.S).decode("utf-8", "replace")


def string_facts(tier):
    from habutax.pdf_filler import PDFFiller
    maxlen = 4 if tier == "quick" else 5
    texts = [""]
    for n in range(1, maxlen + 1):
        texts += ["".join(t) for t in itertools.product(ALPHABET, repeat=n)]
    texts += ["Smith (Jr.)", "a\\b\\", "((", "))", "\\(", "x" * 300, "C:\\dir\\(1)", "\"q\" 'r'", "100% (approx)"]
    work = common.mkwork()
    facts = []
    try:
        p = PDFFiller(configparser.ConfigParser(), [], os.path.join(work, "o.pdf"))
        # values: batches with plain keys; one entry per line as long as the text has no newline
        B = 500
        for off in range(0, len(texts), B):
            chunk = texts[off:off + B]
            data = {"f%d" % (off + j): t for j, t in enumerate(chunk)}
            path = os.path.join(work, "s.fdf")
            p._create_fdf(data, path)
            raw = open(path, "rb").read()
            lines = scan_fields(raw)
            if lines is not None and len(lines) == len(chunk):
                for j, t in enumerate(chunk):
                    facts.append({"sid": len(facts) + 1, "key": bytes_of("f%d" % (off + j)), "text": bytes_of(t), "entry": list(lines[j])})
                continue
            # the batch does not come apart into one dictionary per text: every text in a file of its own
            for j, t in enumerate(chunk):
                p._create_fdf({"f%d" % (off + j): t}, path)
                facts.append({"sid": len(facts) + 1, "key": bytes_of("f%d" % (off + j)), "text": bytes_of(t), "entry": list(whole_array(open(path, "rb").read()))})
        # adversarial field names
        for t in texts[1:400:7] + ["a(b)", "x\\"]:
            path = os.path.join(work, "k.fdf")
            p._create_fdf({t: "v"}, path)
            raw = open(path, "rb").read()
            facts.append({"sid": len(facts) + 1, "key": bytes_of(t), "text": bytes_of("v"), "entry": list(whole_array(raw))})
    finally:
        common.rmwork(work)
    return facts


ADVERSARIAL_TEXT = ["O'Neil (Jr)", "a\\b", ")(", "Q\"uote", "Main St (rear) #2", "x", "Lee-Ann", "", "Very Long Name " * 5,
                    '"Smith"', "'Smith'", '""', "(Jr)", "[x]", "None", "0", "12  Elm St", "a   b  c", "Featherstonehaugh", "Wolfeschlegelstein", "Main Street 1234 Apt", "tab\there", "dot . dot", "UPPER lower", "x-y_z"]


def run_fill(year, sol_text, work, tag):
    """-> (outcome, FakePdftk, PDFFiller or None)"""
    import habutax
    import habutax.pdf_filler as PF
    tag = tag.replace("/", "_")
    path = os.path.join(work, "sol_%s.txt" % tag)
    open(path, "w").write(sol_text)
    fake = FakePdftk()
    captured = []
    orig_run = PF.subprocess.run
    orig_fill = PF.PDFFiller.fill

    def fill(self):
        captured.append(self)
        return orig_fill(self)
    PF.subprocess.run = fake
    PF.PDFFiller.fill = fill
    outcome = "filled"
    try:
        habutax.fill_pdfs(argparse.Namespace(solution=path, output=os.path.join(work, "out_%s.pdf" % tag), flatten=True))
    except BaseException as e:      # noqa
        outcome = type(e).__name__
    finally:
        PF.subprocess.run = orig_run
        PF.PDFFiller.fill = orig_fill
    return outcome, fake, (captured[0] if captured else None)


def solution_text(solver, year):
    import habutax
    import io
    sol = solver.solution()
    sol["habutax"] = {"tax_year": str(year), "version": habutax.__version__}
    buf = io.StringIO()
    sol.write(buf)
    return buf.getvalue()


def fill_facts(tier, seed_):
    import habutax.forms as F
    from habutax.form import InputForm
    from habutax import values as V
    per_year = 12 if tier == "quick" else 200
    facts, meta = [], {}
    work = common.mkwork()
    n_solved = 0
    edited_years = set()
    try:
        for year in scenarios.YEARS:
            classes = {c.form_name: c for c in F.available_forms[year]}
            for k in range(per_year * 3):
                if sum(1 for m in meta.values() if m["year"] == year) >= per_year:
                    break
                rng = random.Random("fill-%d-%d-%d" % (seed_, year, k))
                p = scenarios.Profile(rng, year=year, nc=rng.random() < 0.35)
                if k % 3 == 1:
                    p.text_pool = ADVERSARIAL_TEXT
                ov = {}
                if k == 0:
                    # a plain NC return of somebody with a long last name: the D-400 prints it twice, page 2 in a much narrower box
                    p = scenarios.Profile(rng, year=year, nc=True, status="Single", dependents=0, itemize=False, sched1_adjust=False, wage_scale=60000, ira=False,
                                          qualified_div=False, foreign_tax=False, hsa_you=False, hsa_spouse=False, f8606=False, div_heavy=False, dup_w2=False,
                                          plain_payers=True)
                    p.n = {"w-2": 1, "1099-int": 0, "1099-div": 0, "1099-r": 0, "1099-g": 0, "1098": 1, "1099-oid": 0}
                    # every other text is pinned to something that fits its box, so that the page 2 name is the ONLY value that cannot fit
                    ov = {"1040.last_name": "Featherstonehaugh", "1040.first_name": "Pat", "1040.middle_initial": "Q", "1040.occupation": "Clerk",
                          "1040.phone_number": "9195550100", "1040.email_address": "pat@example.org", "1040.home_address": "1 Elm St",
                          "1040.apartment_no": "2", "1040.city": "Apex", "1040.zip": "27502", "1040.foreign_country": "", "1040.foreign_province": "",
                          "1040.foreign_postal_code": "", "nc_d-400.county": "Wake"}
                request = ["1040"] + (["nc_d-400"] if p.nc else [])
                tr, res, solver, ans = scenarios.solve_scenario(year, request, p, rng, snap="none", overrides=ov)
                if res["abort"] or not res.get("solved"):
                    continue
                n_solved += 1
                typed = solver._v                       # the solved, typed values (independent of the filler's reading)
                outcome, fake, filler = run_fill(year, solution_text(solver, year), work, "%d_%d" % (year, k))
                forms = []
                for fname, fobj in solver.forms.items():
                    cls = classes[fname.split(":")[0]]
                    kind = "inputonly" if issubclass(cls, InputForm) else ("regular" if fobj.pdf_file() else "worksheet")
                    try:
                        needs = bool(fobj.needs_filing(typed))
                    except Exception:     # noqa
                        needs = False
                    forms.append({"name": fname, "needs": needs, "jur": int(getattr(cls, "jurisdiction", 0)), "seq": int(getattr(cls, "sequence_no", 0) or 0), "kind": kind})
                filled = []
                if fake.cat:
                    filled = [os.path.basename(x)[:-4] for x in fake.cat[1:fake.cat.index("cat")]]
                entries, overlong = [], []
                for (template, fdf, outpdf, argv) in fake.fills:
                    fname = os.path.basename(outpdf)[:-4]
                    if fname not in solver.forms:
                        continue          # an output that is not named after a form of the solution: Fill.tla rejects the `filled` list
                    fobj = solver.forms[fname]
                    got = {}
                    for e in split_entries(fdf):
                        nm = entry_name(e)
                        got[nm if nm is not None else "?%d" % len(got)] = e
                    fmap = {x.name(): x for x in fobj.fields()}
                    for pf in fobj.pdf_fields():
                        ln = pf.field_name if "." in pf.field_name else "%s.%s" % (fobj.name(), pf.field_name)
                        field = fmap.get(ln) or solver._field_map.get(ln)
                        try:
                            val = typed[ln]
                            # the text the mapping yields, without the mapping's own length check
                            vfn = getattr(pf, "_value_fn", None)
                            tname = type(pf).__name__
                            if tname == "ButtonPDFField":
                                v2 = vfn(val, field) if vfn else val
                                exp = pf._true_value if v2 else "Off"
                            else:
                                exp = vfn(val, field) if vfn else field.to_string(val)
                        except V.UnmetDependency:
                            exp = ""
                        maxlen = getattr(pf, "max_length", None)
                        choices = getattr(pf, "_choices", None)
                        if (maxlen is not None and len(exp) > maxlen) or (choices is not None and exp not in choices):
                            overlong.append({"form": fname, "field": pf.pdf_field_name, "len": len(exp), "maxlen": maxlen or 0})
                        e = got.get(pf.pdf_field_name)
                        if e is not None:
                            entries.append({"form": fname, "field": pf.pdf_field_name, "expect": bytes_of(exp), "entry": list(e)})
                if outcome != "filled":
                    # what would not have fitted, judged on all forms that need filing
                    for f in forms:
                        if not f["needs"]:
                            continue
                        fobj = solver.forms[f["name"]]
                        fmap = {x.name(): x for x in fobj.fields()}
                        for pf in fobj.pdf_fields():
                            ln = pf.field_name if "." in pf.field_name else "%s.%s" % (fobj.name(), pf.field_name)
                            field = fmap.get(ln) or solver._field_map.get(ln)
                            try:
                                val = typed[ln]
                                vfn = getattr(pf, "_value_fn", None)
                                if type(pf).__name__ == "ButtonPDFField":
                                    continue
                                exp = vfn(val, field) if vfn else field.to_string(val)
                            except Exception:    # noqa
                                continue
                            maxlen = getattr(pf, "max_length", None)
                            choices = getattr(pf, "_choices", None)
                            if (maxlen is not None and len(exp) > maxlen) or (choices is not None and exp not in choices):
                                overlong.append({"form": f["name"], "field": pf.pdf_field_name, "len": len(exp), "maxlen": maxlen or 0})
                fid = len(facts) + 1
                facts.append({"fid": fid, "forms": forms, "filled": filled, "outcome": outcome, "entries": entries, "overlong": overlong})
                meta[fid] = {"year": year, "request": request, "given": dict(ans.given), "adversarial_text": k % 3 == 1}
                if outcome == "filled" and "nc_d-400" in solver.forms and year not in edited_years:
                    # the same solution with the state on the D-400 edited by hand to lower case: not one of the choices of that drop-down
                    st_text = solution_text(solver, year)
                    m = re.search(r"(?ms)^\[nc_d-400\]\n.*?^state = ([A-Z]{2})$", st_text)
                    if m:
                        edited_years.add(year)
                        st2 = st_text[:m.start(1)] + m.group(1).lower() + st_text[m.end(1):]
                        outcome2, fake2, _f2 = run_fill(year, st2, work, "%d_%d_state" % (year, k))
                        filled2 = [os.path.basename(x2)[:-4] for x2 in fake2.cat[1:fake2.cat.index("cat")]] if fake2.cat else []
                        fid = len(facts) + 1
                        facts.append({"fid": fid, "forms": forms, "filled": filled2, "outcome": outcome2, "entries": [],
                                      "overlong": [{"form": "nc_d-400", "field": "y_d400wf_state", "len": 2, "maxlen": 0}]})
                        meta[fid] = {"year": year, "request": request, "given": dict(ans.given), "adversarial_text": False,
                                     "edited": "nc_d-400.state = %s" % m.group(1).lower()}
    finally:
        common.rmwork(work)
    return facts, meta


def c19(tier):
    rep = common.Reporter("C19", tier)
    sd = common.seed()
    strings = string_facts(tier)
    fills, meta = fill_facts(tier, sd)
    work = common.mkwork()
    try:
        path = os.path.join(work, "fill.json")
        json.dump({"strings": strings, "fills": fills}, open(path, "w"))
        cfgp = os.path.join(work, "f.cfg")
        open(cfgp, "w").write("SPECIFICATION Spec\nCHECK_DEADLOCK FALSE\n")
        res = common.run_tlc(os.path.join(common.SPEC, "Fill.tla"), cfgp, cwd=work, workers=1, env={"HV_FILL_FILE": path}, timeout=3000, heap="8g")
    finally:
        common.rmwork(work)
    if res.rc != 0 or res.distinct != len(strings) + len(fills) + 1:
        raise common.MachineryError("Fill.tla failed (rc=%s, %d states for %d facts)\n%s" % (res.rc, res.distinct, len(strings) + len(fills), res.error_excerpt(40)))
    cls = {}
    for m in re.finditer(r'^"C19\|(str|fill)\|(\d+)\|(.*)\|"$', res.out, re.M):
        kind, idx, msg = m.group(1), int(m.group(2)) - 1, m.group(3)
        if kind == "str":
            s = strings[idx]
            text = bytes(s["text"]).decode()
            key = bytes(s["key"]).decode()
            special = "".join(sorted(set(c for c in (text + (key if not key.startswith("f") else "")) if c in "()\\")))
            cls.setdefault((special, msg), []).append(text if key.startswith("f") else "name:" + key)
        else:
            f = fills[idx]
            mt = meta[f["fid"]]
            rep.violation("fill:%d:%s" % (mt["year"], msg[:70]), "%s; forms %s filled %s outcome %s overlong %s" % (msg, [(x["name"], x["needs"]) for x in f["forms"]], f["filled"], f["outcome"], f["overlong"][:3]),
                          {"kind": "scenario-fill", "year": mt["year"], "request": mt["request"], "given": mt["given"]})
    for (special, msg), lst in sorted(cls.items()):
        rep.violation("fdf-string:chars[%s]:%s" % (special, msg[:60]), "%d strings, e.g. %r: %s" % (len(lst), lst[:4], msg), {"kind": "fdf-string", "texts": lst[:20]})
    cov = {"evaluations": len(strings) + len(fills), "distinct_nontrivial": len(strings) + len(fills),
           "rule": "all strings up to length %d over the alphabet ( ) \\ \" ' a space, plus long and mixed ones, as field values and as field names, through the real _create_fdf; "
                   "every solved explored return (a third of them with adversarial text answers) through the real fill_pdfs with a stand-in pdftk" % (4 if tier == "quick" else 5),
           "samples": [{"text": bytes(strings[9]["text"]).decode(), "entry": bytes(strings[9]["entry"]).decode()}],
           "strings_checked": len(strings), "fills_checked": len(fills), "fills_ending_in_error": sum(1 for f in fills if f["outcome"] != "filled"),
           "fdf_entries_decoded": sum(len(f["entries"]) for f in fills), "states": res.distinct,
           "explanation": "TLC decodes every FDF entry with the PDF literal-string syntax of PdfString.tla and evaluates Fill.tla (exact set, order, no worksheet, error instead of truncation)"}
    return rep, "exploration", cov, ["pdftk is replaced by a recorder of argv and form-data files; box lengths and choice lists are the mapping's (C18 compares them with the templates)",
                                     "printable ASCII only"]


# ---------------------------------------------------------------------------------------------
# C14 round trip

def canon(v, tname):
    """(type tag, canonical encoding)"""
    if tname == "FloatField":
        return "float", (float(v).hex() if isinstance(v, (int, float)) and not isinstance(v, bool) else "?" + repr(v))
    if tname == "IntegerField":
        return "int", repr(v)
    if tname == "BooleanField":
        return "bool", repr(v)
    if tname == "EnumField":
        return "enum", ("" if v is None else getattr(v, "name", repr(v)))
    return "str", [ord(c) for c in (v if isinstance(v, str) else repr(v))]


def synthetic_forms():
    """a form (synthetic year 1970) whose lines produce every type / decimal-place setting / magnitude class"""
    from habutax.form import Form, Jurisdiction
    from habutax.fields import StringField, BooleanField, IntegerField, FloatField, EnumField
    import habutax.enum as E
    floats = [0.0, -0.0, 1.0, -1.0, 0.005, 0.015, 2.675, 1234567.891, -98765.4321, 1e15, 123456789012345.67, 1e20, 1e-7, -1e-7, 0.1 + 0.2, 1 / 3.0, 99999.995, 1.2345678901234568e16, 9.87654321e20, -3.333333333333333e17, 7.000000000000001e18, 1.7976931348623157e308, 5e-324]
    texts = ["", "x", "two words", "  padded both sides  ", "line one\nline two", "first\nsecond\nthird", "tab\there", "trailing space ",
             "UPPER lower", "semi;colon", "equals = sign", "colon: here", "[brackets]", "quote \" ' ", "# not a comment", "a\n\nb", "O'Neil (Jr) \\ x",
             '"quoted"', "'quoted'", '""', "''", '"open', 'close"', "`tick`", "(paren)", "[x]", "{x}", "<x>", "%(x)s", "100%", "50%% off", "%", "$HOME", "~", "two  blanks", "three   blanks  and two", "\\", "None", "True", "0", "1.0", "nan"]
    fields = []
    for places in (0, 2, 5):
        for j, x in enumerate(floats):
            fields.append(FloatField("f%d_%d" % (places, j), (lambda s, i, v, x=x: float(x)), places=places))
    for j, x in enumerate([0, 1, -1, 7, 10 ** 6, -10 ** 9, 10 ** 18, 2 ** 70, 2 ** 53 + 1, 12345678901234567891, -(2 ** 63) - 7, 99999999999999999]):
        fields.append(IntegerField("i_%d" % j, (lambda s, i, v, x=x: x)))
    fields.append(BooleanField("b_t", lambda s, i, v: True))
    fields.append(BooleanField("b_f", lambda s, i, v: False))
    fields.append(BooleanField("b_none", lambda s, i, v: None))
    for j, x in enumerate(texts):
        fields.append(StringField("s_%d" % j, (lambda s, i, v, x=x: x)))
    for ename, en in (("status", E.filing_status), ("status21", E.filing_status_2021), ("tos", E.taxpayer_or_spouse), ("tsb", E.taxpayer_spouse_or_both), ("state", E.us_states)):
        for m in list(en.__members__.values())[:8]:
            fields.append(EnumField("e_%s_%s" % (ename, m.name.lower()), en, (lambda s, i, v, m=m: m)))
        fields.append(EnumField("e_%s_blank" % ename, en, lambda s, i, v: None))
    fields.append(FloatField("f_none", lambda s, i, v: None))
    fields.append(IntegerField("i_none", lambda s, i, v: None))
    fields.append(StringField("s_none", lambda s, i, v: None))

    class Synth(Form):
        form_name = "synth"
        tax_year = 1970
        description = "synthetic"
        long_description = "round trip"
        jurisdiction = Jurisdiction.US
        sequence_no = 1

        def __init__(self, **kw):
            fs = []
            for f in fields:
                fs.append(type(f).__new__(type(f)))
                fs[-1].__dict__.update(f.__dict__)
            super().__init__(Synth, [], fs, [], **kw)

        def needs_filing(self, values):
            return False
    return [Synth]


def roundtrip_records(year, solver, work, tag, values_out, years_out, meta):
    text = solution_text(solver, year)
    outcome, fake, filler = run_fill(year, text, work, tag)
    if filler is None:
        raise common.MachineryError("fill-pdfs did not construct a PDFFiller (%s)" % outcome)
    back = filler._values.values
    interp = set(getattr(c, "tax_year", None) for c in filler._form_map.values())
    cp = configparser.ConfigParser()
    cp.read_string(text)
    stamped = cp.getint("habutax", "tax_year")
    extra = sorted(k for k in back if k not in solver._v.values)
    years_out.append({"solved": year, "stamped": stamped, "interpreted": (list(interp)[0] if len(interp) == 1 else -1), "extra": extra})
    meta.append(tag)
    for name, v in solver._v.values.items():
        field = solver._field_map[name]
        tname = type(field).__name__
        ty, orig = canon(v, tname)
        present = name in back
        _ty, bk = canon(back[name], tname) if present else (ty, orig)
        if present and tname == "EnumField" and back[name] is not None:
            reader = filler._field_map.get(name)
            if reader is not None and not isinstance(back[name], reader.enum()):
                bk = bk + " (not a member of the reading line's own enumeration)"
        values_out.append({"rid": len(values_out) + 1, "type": ty, "orig": orig, "back": bk, "present": present, "name": name, "tag": tag})


def c14(tier):
    import habutax.forms as F
    from habutax.inputs import InputStore
    from habutax.solver import Solver
    rep = common.Reporter("C14", tier)
    sd = common.seed()
    values, years, tags = [], [], []
    work = common.mkwork()
    nsol = 0
    try:
        F.available_forms[1970] = synthetic_forms()
        s = Solver(InputStore(configparser.ConfigParser()), F.available_forms[1970])
        s.solve(["synth"])
        roundtrip_records(1970, s, work, "synthetic", values, years, tags)
        F.available_forms.pop(1970, None)
        per_year = 10 if tier == "quick" else 150
        for year in scenarios.YEARS:
            for k in range(per_year):
                rng = random.Random("rt-%d-%d-%d" % (sd, year, k))
                p = scenarios.Profile(rng, year=year, nc=rng.random() < 0.35)
                if k % 4 == 1:
                    p.text_pool = ["O'Neil (Jr)", "two  words", " x ", "a=b", "semi;colon", "[s]", "#5 Main St", "Q\"uote"]
                request = ["1040"] + (["nc_d-400"] if p.nc else [])
                tr, res, solver, ans = scenarios.solve_scenario(year, request, p, rng, snap="none")
                if res["abort"]:
                    continue          # no solution is produced
                nsol += 1
                roundtrip_records(year, solver, work, "%d/%d" % (year, k), values, years, tags)
        path = os.path.join(work, "rt.json")
        json.dump({"values": [{k: v for k, v in r.items() if k not in ("name", "tag")} for r in values], "years": years}, open(path, "w"))
        cfgp = os.path.join(work, "r.cfg")
        open(cfgp, "w").write("SPECIFICATION Spec\nCHECK_DEADLOCK FALSE\n")
        res_t = common.run_tlc(os.path.join(common.SPEC, "RoundTrip.tla"), cfgp, cwd=work, workers=1, env={"HV_RT_FILE": path}, timeout=3000, heap="8g")
    finally:
        F.available_forms.pop(1970, None)
        common.rmwork(work)
    if res_t.rc != 0 or res_t.distinct != len(values) + len(years) + 1:
        raise common.MachineryError("RoundTrip.tla failed (rc=%s)\n%s" % (res_t.rc, res_t.error_excerpt(40)))
    for m in re.finditer(r'^"C14\|(val|year)\|(\d+)\|(.*)\|"$', res_t.out, re.M):
        kind, idx, msg = m.group(1), int(m.group(2)) - 1, m.group(3)
        if kind == "val":
            r = values[idx]
            base = re.sub(r":[^.]*\.", ":N.", r["name"])
            rep.violation("value:%s:%s:%s" % (r["tag"].split("/")[0], base, msg[:40]), "%s: %s (solved %r, read back %r) in %s" % (r["name"], msg, r["orig"], r["back"], r["tag"]),
                          {"kind": "round-trip", "line": r["name"], "solution": r["tag"]})
        else:
            rep.violation("year:%s:%s" % (tags[idx], msg[:50]), msg, {"kind": "round-trip-year", "solution": tags[idx], "fact": years[idx]})
    bytype = {}
    for r in values:
        bytype[r["type"]] = bytype.get(r["type"], 0) + 1
    cov = {"evaluations": len(values), "distinct_nontrivial": len(values), "rule": "every stored line of every explored real solution (complete or partial, 3 years, with/without NC, some with awkward text answers) "
           "and of a synthetic form covering every line type, decimal places 0/2/5, negative/zero/huge/tiny magnitudes, multi-word and multi-line text, every member of the shipped enumerations and blank",
           "samples": [{k: v for k, v in values[3].items()}], "values_by_type": bytype, "solutions": len(years), "real_solutions": nsol,
           "states": res_t.distinct, "explanation": "TLC evaluates RoundTrip.tla on every value that went solution() -> file -> fill-pdfs loading with the stamped year's forms"}
    return rep, "exploration", cov, ["text containing '%' makes configparser raise (an abort, not a wrong value) and is not generated", "floats compared by exact binary value (hex form)"]
