"""Confirms a seeded change produced by a sub-agent and runs the checks against it.
    /venv/bin/python harness/seedrun.py <worktree> <seed id> [--checks C01,C05] [--keep]
1. in the worktree: the test-suite still has 55 passes with the change; demo.py fails with it and passes without it
2. copies patch.diff / demo.py / meta.json to /verif/seeded/<seed id>/
3. runs the listed checks (default: all) against the changed tree (HABUTAX_REPO=<worktree>, evidence and replays in a scratch dir)
   and records which alarmed in /verif/seeded/<seed id>/result.json
"""
import json
import os
import shutil
import subprocess
import sys
import tempfile
from concurrent.futures import ThreadPoolExecutor

HERE = os.path.dirname(os.path.dirname(os.path.abspath(__file__)))
ALL = ["C%02d" % k for k in range(1, 21)]


def sh(cmd, cwd=None, env=None, timeout=3000):
    p = subprocess.run(cmd, cwd=cwd, env=env, stdout=subprocess.PIPE, stderr=subprocess.STDOUT, text=True, shell=isinstance(cmd, str), timeout=timeout)
    return p.returncode, p.stdout


def main():
    wt, sid = sys.argv[1], sys.argv[2]
    checks = ALL
    if "--checks" in sys.argv:
        checks = sys.argv[sys.argv.index("--checks") + 1].split(",")
    seed = os.path.join(wt, "_seed")
    out = os.path.join(HERE, "seeded", sid)
    os.makedirs(out, exist_ok=True)
    res = {"seed": sid}
    # 1. confirm
    # never `git stash`: the stash is shared by all worktrees of a repository
    if not os.path.exists(os.path.join(seed, "patch.diff")) or os.path.getsize(os.path.join(seed, "patch.diff")) == 0:
        sh("git diff -- habutax > _seed/patch.diff", cwd=wt)
    rc, cur = sh("git diff -- habutax", cwd=wt)
    if cur.strip() != open(os.path.join(seed, "patch.diff")).read().strip():
        print("worktree does not hold exactly the recorded patch: resetting it to HEAD + patch.diff")
        sh("git checkout -- habutax", cwd=wt)
        rc, o2 = sh("git apply _seed/patch.diff", cwd=wt)
        if rc != 0:
            print("cannot apply recorded patch:", o2)
            return 1
    rc, o = sh("/venv/bin/python -m pytest -q -p no:cacheprovider --continue-on-collection-errors 2>&1 | tail -1", cwd=wt)
    res["tests_with_change"] = o.strip()
    rc_with, o_with = sh(["/venv/bin/python", "_seed/demo.py"], cwd=wt)
    sh("git apply -R _seed/patch.diff", cwd=wt)
    try:
        rc_without, o_without = sh(["/venv/bin/python", "_seed/demo.py"], cwd=wt)
    finally:
        sh("git apply _seed/patch.diff", cwd=wt)
    res["demo_with_change_rc"] = rc_with
    res["demo_without_change_rc"] = rc_without
    res["confirmed"] = ("55 passed" in o) and rc_with != 0 and rc_without == 0
    for f in ("patch.diff", "demo.py", "meta.json"):
        if os.path.exists(os.path.join(seed, f)):
            shutil.copy(os.path.join(seed, f), out)
    print("confirmed" if res["confirmed"] else "NOT CONFIRMED", res)
    if not res["confirmed"]:
        json.dump(res, open(os.path.join(out, "result.json"), "w"), indent=1)
        return 1
    # 3. checks
    tmp = tempfile.mkdtemp(prefix="hv_seed_")
    env = dict(os.environ, HABUTAX_REPO=wt, HV_EVID_DIR=os.path.join(tmp, "ev"), HV_REPLAY_DIR=os.path.join(tmp, "rp"))

    def one(pid):
        rc, o = sh([os.path.join(HERE, "check"), pid, "--tier", "quick"], env=env)
        loci = [l.strip() for l in o.splitlines() if l.strip().startswith("locus:")][:5]
        return pid, rc, loci
    alarms, errors, detail = [], [], {}
    with ThreadPoolExecutor(max_workers=4) as ex:
        for pid, rc, loci in ex.map(one, checks):
            if rc == 1:
                alarms.append(pid)
                detail[pid] = loci
            elif rc != 0:
                errors.append("%s(rc=%d)" % (pid, rc))
    shutil.rmtree(tmp, ignore_errors=True)
    res.update({"checks_run": checks, "alarms": alarms, "machinery_errors": errors, "first_loci": detail})
    json.dump(res, open(os.path.join(out, "result.json"), "w"), indent=1)
    print("ALARMS", alarms, "ERRORS", errors)
    for k, v in detail.items():
        print(" ", k, v[:2])
    return 0


if __name__ == "__main__":
    sys.exit(main())
