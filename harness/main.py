"""./check <id> [--tier quick|thorough]"""
import argparse
import os
import sys
import traceback

import common


def dispatch(pid, tier, replay):
    if pid in ("C01", "C03", "C04", "C05", "C06", "C13"):
        import solver_checks
        return solver_checks.run(pid, tier)
    if pid == "C15":
        import content_checks
        return content_checks.c15(tier)
    if pid == "C16":
        import content_checks
        return content_checks.c16(tier)
    if pid == "C10":
        import static_checks
        return static_checks.c10(tier)
    if pid == "C07":
        import tax_checks
        return tax_checks.c07(tier)
    if pid == "C17":
        import static_checks
        return static_checks.c17(tier)
    if pid == "C08":
        import statutory_checks
        return statutory_checks.c08(tier)
    if pid == "C09":
        import content_checks
        return content_checks.c09(tier)
    if pid == "C20":
        import session_checks
        return session_checks.c20(tier)
    if pid == "C19":
        import fill_checks
        return fill_checks.c19(tier)
    if pid == "C14":
        import fill_checks
        return fill_checks.c14(tier)
    if pid == "C11":
        import input_checks
        return input_checks.c11(tier)
    if pid == "C12":
        import field_checks
        return field_checks.c12(tier)
    if pid == "C18":
        import pdfmap_checks
        return pdfmap_checks.c18(tier)
    if pid == "C02":
        import content_checks
        return content_checks.c02(tier)
    raise common.MachineryError("no check for " + pid)


def replay(pid, path):
    """re-runs the case recorded in a replay file against the current tree and prints what happens"""
    import json
    d = json.load(open(path))
    print("replay of %s violation: %s" % (d.get("property"), d.get("locus")))
    print("recorded detail: %s" % str(d.get("detail"))[:1500])
    r = d.get("replay") or {}
    kind = r.get("kind", "")
    if kind in ("scenario", "scenario-pair", "scenario-fill", "real-run-pair") and r.get("given") is not None and r.get("year"):
        import random
        import scenarios
        given = dict(r["given"])
        if kind == "scenario-pair" and r.get("change", {}).get("input"):
            print("change applied in the pair: %s" % r["change"])
        rng = random.Random(0)
        p = scenarios.Profile(rng, year=r["year"])
        tr, res, solver, ans = scenarios.solve_scenario(r["year"], r.get("request") or ["1040"], p, rng, overrides=given, snap="none")
        print("re-solved with the recorded inputs: abort=%r solved=%r unimplemented=%s missing=%s" % (res.get("abort"), res.get("solved"), res.get("unimpl"), list((res.get("missing") or {}).keys())[:5]))
        eq = r.get("equation")
        if eq and "values" in res:
            names = [eq["line"]] + list(eq.get("args", [])) + ([eq["src"].split(".", 1)[1]] if eq.get("src", "").startswith(eq["form"] + ".") else [])
            for n in names:
                full = n if "." in n else "%s.%s" % (eq["form"], n)
                print("   %s = %s" % (full, res["values"].get(full)))
            if eq.get("src"):
                print("   %s = %s" % (eq["src"], res["values"].get(eq["src"])))
        return 0
    print("recorded case:")
    print(json.dumps(r, indent=1, default=str)[:4000])
    return 0


def main():
    ap = argparse.ArgumentParser()
    ap.add_argument("pid")
    ap.add_argument("--tier", default=os.environ.get("VERIF_TIER", "quick"), choices=["quick", "thorough"])
    ap.add_argument("--replay", default=None)
    a = ap.parse_args()
    sys.path.insert(0, common.REPO)
    if a.replay:
        sys.exit(replay(a.pid, a.replay))
    if a.pid == "selftest":
        import corrupt
        sys.exit(corrupt.selftest())
    try:
        rep, (level, cov, assumptions) = None, (None, None, None)
        out = dispatch(a.pid, a.tier, a.replay)
        rep, level, cov, assumptions = out
        rc = rep.finish(level, cov, assumptions)
        if rc == 0:
            print("OK property=%s tier=%s wall=%.1fs" % (a.pid, a.tier, rep and __import__("time").time() - rep.t0))
        sys.exit(rc)
    except common.MachineryError as e:
        print("MACHINERY-FAILURE property=%s: %s" % (a.pid, e))
        sys.exit(2)
    except SystemExit:
        raise
    except BaseException:
        traceback.print_exc()
        print("MACHINERY-FAILURE property=%s: unexpected exception in the checker" % a.pid)
        sys.exit(2)


if __name__ == "__main__":
    main()
