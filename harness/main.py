"""./check <id> [--tier quick|thorough]"""
import argparse
import os
import sys
import traceback

import common


def dispatch(pid, tier, replay):
    if pid in ("C01", "C03", "C04", "C05", "C06", "C13"):
        import solver_checks
        return solver_checks.run(pid, tier)
    if pid == "C15":
        import content_checks
        return content_checks.c15(tier)
    if pid == "C16":
        import content_checks
        return content_checks.c16(tier)
    if pid == "C10":
        import static_checks
        return static_checks.c10(tier)
    if pid == "C07":
        import tax_checks
        return tax_checks.c07(tier)
    if pid == "C17":
        import static_checks
        return static_checks.c17(tier)
    if pid == "C08":
        import statutory_checks
        return statutory_checks.c08(tier)
    if pid == "C09":
        import content_checks
        return content_checks.c09(tier)
    if pid == "C20":
        import session_checks
        return session_checks.c20(tier)
    if pid == "C19":
        import fill_checks
        return fill_checks.c19(tier)
    if pid == "C14":
        import fill_checks
        return fill_checks.c14(tier)
    if pid == "C11":
        import input_checks
        return input_checks.c11(tier)
    if pid == "C12":
        import field_checks
        return field_checks.c12(tier)
    if pid == "C18":
        import pdfmap_checks
        return pdfmap_checks.c18(tier)
    if pid == "C02":
        import content_checks
        return content_checks.c02(tier)
    raise common.MachineryError("no check for " + pid)


def main():
    ap = argparse.ArgumentParser()
    ap.add_argument("pid")
    ap.add_argument("--tier", default=os.environ.get("VERIF_TIER", "quick"), choices=["quick", "thorough"])
    ap.add_argument("--replay", default=None)
    a = ap.parse_args()
    sys.path.insert(0, common.REPO)
    try:
        rep, (level, cov, assumptions) = None, (None, None, None)
        out = dispatch(a.pid, a.tier, a.replay)
        rep, level, cov, assumptions = out
        rc = rep.finish(level, cov, assumptions)
        if rc == 0:
            print("OK property=%s tier=%s wall=%.1fs" % (a.pid, a.tier, rep and __import__("time").time() - rep.t0))
        sys.exit(rc)
    except common.MachineryError as e:
        print("MACHINERY-FAILURE property=%s: %s" % (a.pid, e))
        sys.exit(2)
    except SystemExit:
        raise
    except BaseException:
        traceback.print_exc()
        print("MACHINERY-FAILURE property=%s: unexpected exception in the checker" % a.pid)
        sys.exit(2)


if __name__ == "__main__":
    main()
