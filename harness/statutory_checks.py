"""C08: statutory amounts used by the forms against Statutory.tla (harvest by forced execution)."""
import json
import os
import random
import re

import common
import pathexplore

STATUS_ORDER = ["Single", "MarriedFilingJointly", "MarriedFilingSeparately", "HeadOfHousehold", "QSS"]
NOT_STATUTORY_LINES = {       # lines whose constants are tables judged elsewhere or not statutory amounts of C08's list
    "1040.16": "tax table / worksheet (C07)", "1040_qualdiv_capgain_tax_wkst.22": "tax table (C07)", "1040_qualdiv_capgain_tax_wkst.24": "tax table (C07)",
    "nc_d-400_consumer_use_tax_wkst.estimate": "NC use-tax table (observed, not judged)", "1040.4a": "QCD ceiling (observed, not judged)",
    "1040.4b": "QCD ceiling (observed, not judged)", "1040_s1.11": "educator expense ceiling (observed, not judged)",
    "1040.27a_checkbox": "same helper as 27a", "1040.27b": "same helper as 27a", "1040.27c": "same helper as 27a",
    "1040_s8812.36": "rounding step", "8606.10": "ratio witness",
}


def bound_lines():
    """{year: set of bound 'form.line'} parsed from Statutory.tla (single source of truth)"""
    src = open(os.path.join(common.SPEC, "Statutory.tla")).read()
    a = src.index("LET common ==")
    b = src.index("IF y = 2021 THEN common @@")
    c = src.index("ELSE common @@")
    d = src.index("(* judging the harvested constants")
    pick = lambda t: set(re.findall(r'"([^"]+)" :> B\(', t))
    com, y21, oth = pick(src[a:b]), pick(src[b:c]), pick(src[c:d])
    return {2021: com | y21, 2022: com | oth, 2023: com | oth}


def classify(consts):
    d, r = set(), set()
    for c in consts:
        if c >= 100:
            d.add(int(c))            # a non-integral amount shows up truncated and cannot equal an official one
        elif 0 < c < 1 and abs(c - 0.001) > 1e-12 and abs(c - 0.01) > 1e-12:
            r.add(int(round(c * 1e6)))
    return sorted(d), sorted(r)


def harvest(year, lines_wanted, paths, extra):
    import habutax.enum as E
    cat = pathexplore.Catalogue(year)
    pathexplore._patch_threshold()
    pathexplore._patch_float(year)
    en = E.filing_status_2021 if year == 2021 else E.filing_status
    members = list(en.__members__.values())
    out = {}
    seen_other = {}
    for cls in cat.class_list:
        if pathexplore.issubclass_inputform(cls):
            continue
        insts = list(getattr(cls, "valid_instances", [])) or [None]
        full = cls.form_name if insts[0] is None else "%s:%s" % (cls.form_name, insts[0])
        form = cat.form(full)
        for field in form.fields():
            key = "%s.%s" % (cls.form_name, field.base_name())
            for si, mem in enumerate(members):
                rec = pathexplore.explore_line(cat, form, field, max_paths=paths if key in lines_wanted else 150, pin={"1040.filing_status": mem},
                                               extra_random=extra if key in lines_wanted else 0, rng=random.Random(si))
                allc = set()
                for v in rec["consts"].values():
                    allc |= v
                # witness-derived values are never round
                d, r = classify(allc)
                if key in lines_wanted:
                    out[(key, si + 1)] = (d, r, rec["paths"])
                elif d or r:
                    seen_other.setdefault(key, set()).update(d)
    return out, seen_other


def c08(tier):
    rep = common.Reporter("C08", tier)
    bl = bound_lines()
    facts, meta = [], []
    unbound = {}
    npaths = 0
    for year in (2021, 2022, 2023):
        hv, other = harvest(year, bl[year], 1200 if tier == "quick" else 6000, 400 if tier == "quick" else 3000)
        for line in sorted(bl[year]):
            for s in range(1, 6):
                d, r, n = hv.get((line, s), ([], [], 0))
                npaths += n
                facts.append({"y": year, "line": line, "s": s, "d": d, "r": r})
        for k, v in other.items():
            if k not in NOT_STATUTORY_LINES and v:
                unbound.setdefault(k, set()).update(v)
    work = common.mkwork()
    try:
        path = os.path.join(work, "facts.json")
        json.dump({"lines": facts}, open(path, "w"))
        cfgp = os.path.join(work, "c.cfg")
        open(cfgp, "w").write("SPECIFICATION Spec\nCHECK_DEADLOCK FALSE\n")
        res = common.run_tlc(os.path.join(common.SPEC, "Statutory.tla"), cfgp, cwd=work, workers=1, env={"HV_FACTS_FILE": path}, timeout=1800)
    finally:
        common.rmwork(work)
    if res.rc != 0 or res.distinct != len(facts) + 1:
        raise common.MachineryError("Statutory.tla failed (rc=%s, %d states for %d facts)\n%s" % (res.rc, res.distinct, len(facts), res.error_excerpt(40)))
    for m in re.finditer(r'^"C08\|(bad|unbound)\|(\d+)\|(.*)\|"$', res.out, re.M):
        kind, idx, msg = m.group(1), int(m.group(2)) - 1, m.group(3)
        o = facts[idx]
        if kind == "bad":
            rep.violation("amount:%d:%s:%s" % (o["y"], o["line"], STATUS_ORDER[o["s"] - 1]), "%s line %s, %s: %s" % (o["y"], o["line"], STATUS_ORDER[o["s"] - 1], msg),
                          {"kind": "statutory-amount", "fact": o})
    cov = {"programs": len(facts), "disagreements_checked": len(facts), "samples": facts[:3],
           "triples_checked": len(facts), "bound_lines_per_year": {str(y): len(bl[y]) for y in bl}, "paths_executed": npaths,
           "observed_not_judged": {k: sorted(v)[:8] for k, v in sorted(unbound.items())},
           "states": res.distinct, "exhaustive": True,
           "explanation": "for every (year, bound line, filing status) the constants the line definition uses on any path (harvested by forced execution with the status pinned) must be exactly the official amounts of Statutory.tla; TLC evaluates the comparison"}
    return rep, "translation_validation", cov, ["Official table is my transcription of the Revenue Procedures / instructions; consistency axioms checked by TLC (ASSUME)",
                                                  "lines with table look-ups judged by C07 or outside the property's list are listed under observed_not_judged"]
