"""Independent statement of the natural order the solver is documented to use for lines and
inputs ("1" < "1a" < "2" < "10", forms first).  Used to compute the `rank` constant of the
specification; deliberately NOT habutax.solver.sort_keys."""
import re

_TOK = re.compile(r"[0-9]+|[^\W\d_]+", re.UNICODE)


def _tokens(text):
    out = []
    for m in _TOK.finditer(text):
        t = m.group(0)
        if t[0] in "0123456789":
            out.append((0, int(t), ""))
        else:
            out.append((1, 0, t))
    return out


def key(name):
    if "." in name:
        form, line = name.split(".", 1)
    else:
        form, line = "", name
    return (_tokens(form), _tokens(line))


def ranks(names):
    """name -> rank (0-based position among distinct keys; equal keys share a rank)"""
    ks = sorted({repr(key(n)): key(n) for n in names}.values())
    pos = {repr(k): i for i, k in enumerate(ks)}
    return {n: pos[repr(key(n))] for n in names}
