"""Observation of real habutax solver executions from outside (DESIGN 4.1).

One event per specification action, emitted at the return of the call that performs it (also on
the exception path).  No repository change is needed for observation; wrappers are installed on
the classes for the duration of one traced solve and removed afterwards.

    with Tracer(mode="prog"|"real") as tr:
        solver = Solver(...); tr.attach(solver, ...); tr.run(lambda: solver.solve([...]))
    trace = tr.trace()      # dict: header (catalogue) + events
"""
import configparser

import natsort


class TracerBroken(Exception):
    """The tracer could not project the implementation's state (machinery failure, exit 2)."""


BLANK_OK = set()        # prog mode: full names of the enumeration lines, whose blank value is stored as None


def digest(v, mode, key=None):
    if mode == "prog":
        if v is None and key in BLANK_OK:
            return 0
        if getattr(type(v), "_hv_bit", False):
            return v.value                 # an enumeration line of a generated program
        if isinstance(v, bool) or not isinstance(v, int):
            return repr(v)
        return v
    if v is None:
        return "None"
    if isinstance(v, float):
        return repr(v)
    if isinstance(v, (bool, int)):
        return repr(v)
    if isinstance(v, str):
        return "s:" + v
    return "e:" + str(v)


ABORT_KINDS = {
    "NotImplementedError": "unsupported",
    "AssertionError": "assert",
    "RecursionError": "recursion",
    "InvalidInput": "invalid",
    "EOFError": "eof",
    "KeyError": "keyerror",
}


def abort_kind(exc):
    return ABORT_KINDS.get(type(exc).__name__, "raise")


class Tracer(object):
    def __init__(self, mode="real", snap="full", max_events=200000):
        self.mode = mode
        self.snap = snap
        self.max_events = max_events
        self.events = []
        self.solver = None
        self.depth = 0
        self.cur = None
        self._patches = []
        self.names = set()
        self.forms_seen = set()
        self.form_classes = {}
        self.overflow = False

    # -- patching --------------------------------------------------------------------------
    def _patch(self, owner, attr, make):
        orig = owner.__dict__[attr]
        setattr(owner, attr, make(orig))
        self._patches.append((owner, attr, orig))

    def __enter__(self):
        from habutax import solver as S, form as F, fields as FL, values as V, inputs as I
        tr = self

        def wrap_attempt(orig):
            def _attempt_field(self_, field):
                if self_ is not tr.solver:
                    return orig(self_, field)
                tr.depth += 1
                outer = tr.depth == 1
                if outer:
                    tr.cur = {"line": field.name(), "loads": [], "adds": [], "reads": [], "last": None, "stored": None}
                esc = None
                try:
                    return orig(self_, field)
                except BaseException as e:
                    esc = e
                    raise
                finally:
                    tr.depth -= 1
                    if outer:
                        tr._emit_attempt(field, esc)
            return _attempt_field
        self._patch(S.Solver, "_attempt_field", wrap_attempt)

        def wrap_add_input_spec(orig):
            def _add_input_spec(self_, input_name):
                if self_ is tr.solver and tr.cur is not None:
                    if len(tr.cur["loads"]) < 50:
                        tr.cur["loads"].append(input_name)
                    tr.names.add(input_name)
                return orig(self_, input_name)
            return _add_input_spec
        self._patch(S.Solver, "_add_input_spec", wrap_add_input_spec)

        def wrap_add_form(orig):
            def _add_form(self_, form_name, input_only=False):
                if self_ is tr.solver:
                    tr.forms_seen.add(form_name)
                r = orig(self_, form_name, input_only=input_only)
                if self_ is tr.solver and not input_only and tr.cur is not None:
                    tr.cur["adds"].append(form_name)
                return r
            return _add_form
        self._patch(S.Solver, "_add_form", wrap_add_form)

        def wrap_value(orig):
            def value(self_, inputs, values):
                if tr.cur is None or tr.depth == 0:
                    return orig(self_, inputs, values)
                try:
                    return orig(self_, inputs, values)
                except BaseException as e:
                    tr.cur["last"] = e
                    raise
            return value
        self._patch(FL.TypedField, "value", wrap_value)

        def wrap_fa_get(orig):
            def __getitem__(self_, key):
                if tr.cur is None or tr.depth == 0 or tr.solver is None:
                    return orig(self_, key)
                full = key if "." in key else "%s.%s" % (self_.form.name(), key)
                kind = "in" if self_.mapping is tr.solver._i else ("ln" if self_.mapping is tr.solver._v else None)
                if kind is None:
                    return orig(self_, key)
                val = orig(self_, key)
                tr.names.add(full)
                tr.cur["reads"].append([kind, full, digest(val, tr.mode, full)])
                return val
            return __getitem__
        self._patch(F.FormAccessor, "__getitem__", wrap_fa_get)

        def wrap_vs_set(orig):
            def __setitem__(self_, key, value):
                if tr.solver is not None and self_ is tr.solver._v and tr.cur is not None:
                    tr.cur["stored"] = (key, value)
                return orig(self_, key, value)
            return __setitem__
        self._patch(V.ValueStore, "__setitem__", wrap_vs_set)

        def wrap_met_dependents(orig):
            def met_dependents(self_):
                if tr.solver is None or self_ not in (tr.solver._field_dependencies, tr.solver._input_dependencies):
                    for x in orig(self_):
                        yield x
                    return
                which = "f" if self_ is tr.solver._field_dependencies else "i"
                items = []
                try:
                    for x in orig(self_):
                        items.append(x.name())
                        yield x
                finally:
                    tr._emit({"ev": "drain", "which": which, "items": items})
            return met_dependents
        self._patch(S.DependencyTracker, "met_dependents", wrap_met_dependents)

        def wrap_attempt_input(orig):
            def _attempt_input(self_, input_name, needed_by):
                if self_ is not tr.solver:
                    return orig(self_, input_name, needed_by)
                ev = {"ev": "ask", "input": input_name, "needed_by": [f.name() for f in needed_by],
                      "supplied": False, "esc": ""}
                tr.names.add(input_name)
                try:
                    supplied = orig(self_, input_name, needed_by)
                    ev["supplied"] = bool(supplied)
                    if supplied:
                        try:
                            ev["digest"] = digest(self_._i[input_name], tr.mode)
                        except Exception as e:   # noqa
                            ev["digest"] = 2 if tr.mode == "prog" else "unreadable:" + type(e).__name__
                    return supplied
                except BaseException as e:
                    ev["esc"] = abort_kind(e)
                    ev["cls"] = type(e).__name__
                    raise
                finally:
                    tr._emit(ev)
            return _attempt_input
        self._patch(S.Solver, "_attempt_input", wrap_attempt_input)
        return self

    def __exit__(self, *a):
        for owner, attr, orig in reversed(self._patches):
            setattr(owner, attr, orig)
        self._patches = []
        return False

    # -- events ----------------------------------------------------------------------------
    def _emit(self, ev):
        if len(self.events) >= self.max_events:
            self.overflow = True
            raise TracerBroken("work bound exceeded: more than %d events" % self.max_events)
        if self.solver is not None and self.snap != "none":
            ev["sc"] = self._scalars()
            if self.snap == "full" or (self.snap == "scalars" and ev["ev"] in ("finish", "abort")):
                ev["snap"] = self._snapshot()
        self.events.append(ev)

    def _emit_attempt(self, field, esc):
        c = self.cur
        self.cur = None
        last = c["last"]
        name = field.name()
        self.names.add(name)
        out = None
        if c["stored"] is not None and c["stored"][0] == name and (last is None or esc is None):
            out = {"o": "val", "v": digest(c["stored"][1], self.mode, name)}
        elif last is not None:
            cn = type(last).__name__
            if cn == "UnmetDependency":
                out = {"o": "nofield", "n": last.dependency}
                self.names.add(last.dependency)
            elif cn == "MissingInput":
                out = {"o": "noinput", "n": last.input_name}
                self.names.add(last.input_name)
            elif cn == "MissingInputSpecification":
                out = {"o": "nospec", "n": last.input_name}
                self.names.add(last.input_name)
            elif cn == "FieldNotImplemented":
                out = {"o": "unimpl", "n": last.field_name}
                self.names.add(last.field_name)
            else:
                out = {"o": "raise", "k": abort_kind(last), "cls": cn}
        else:
            out = {"o": "raise", "k": abort_kind(esc) if esc is not None else "raise", "cls": type(esc).__name__ if esc is not None else "?"}
        ev = {"ev": "attempt", "line": name, "loads": c["loads"], "adds": c["adds"], "reads": c["reads"],
              "out": out, "esc": abort_kind(esc) if esc is not None else "", "cls": type(esc).__name__ if esc is not None else ""}
        self._emit(ev)

    def _scalars(self):
        s = self.solver
        try:
            def waited(t):       # dependencies somebody waits for
                return set(d for d, w in t._unmet.items() if len(w) > 0)

            def releasable(t):   # ... that have been met and not drained yet
                return waited(t) & set(t._met)
            fd, idp = s._field_dependencies, s._input_dependencies
            return {"q": len(s._unattempted_fields), "vals": len(s._v.values), "forms": len(s.forms),
                    "fdU": len(waited(fd)), "fdM": len(releasable(fd)),
                    "idU": len(waited(idp)), "idM": len(releasable(idp)),
                    "unimpl": len(set(s._unimplemented_fields)), "refused": bool(s._refused_input),
                    "specs": len(s._input_map), "fmap": len(s._field_map), "solving": len(s._solving_fields)}
        except AttributeError as e:
            raise TracerBroken("cannot project solver state: %s" % e)

    def _snapshot(self):
        s = self.solver
        try:
            return {"queue": [f.name() for f in s._unattempted_fields],
                    "fdU": {d: [f.name() for f in w] for d, w in s._field_dependencies._unmet.items()},
                    "fdM": list(s._field_dependencies._met),
                    "idU": {d: [f.name() for f in w] for d, w in s._input_dependencies._unmet.items()},
                    "idM": list(s._input_dependencies._met),
                    "forms": sorted(s.forms.keys()), "specs": sorted(s._input_map.keys()),
                    "fmap": sorted(s._field_map.keys()), "solving": sorted(s._solving_fields),
                    "vals": {k: digest(v, self.mode, k) for k, v in s._v.values.items()},
                    "unimpl": list(s._unimplemented_fields), "refused": bool(s._refused_input)}
        except AttributeError as e:
            raise TracerBroken("cannot project solver state: %s" % e)

    # -- driving ---------------------------------------------------------------------------
    def attach(self, solver, form_list):
        self.solver = solver
        self.form_classes = {f.form_name: f for f in form_list}
        cfg0 = {}
        conf = solver._i.config
        for sec in conf.sections():
            for opt in conf[sec]:
                name = "%s.%s" % (sec, opt)
                if self.mode == "prog":
                    raw = conf.get(sec, opt, raw=True).strip()
                    cfg0[name] = 0 if raw == "0" else 1 if raw == "1" else 2
                else:
                    cfg0[name] = "?"
        self.cfg0 = cfg0
        self.vals0 = {k: digest(v, self.mode, k) for k, v in solver._v.values.items()}
        self.fmap0 = sorted(solver._field_map.keys())
        self.has_prompt = solver._prompt is not None

    def run_solve(self, form_names, field_names=(), solve_fn=None):
        """calls solver.solve and emits start / finish / abort events; returns (solved|None, exception|None)"""
        s = self.solver
        solve = (lambda *a, **k: solve_fn(s, *a, **k)) if solve_fn is not None else s.solve
        self.request = list(form_names)
        self.field_names = list(field_names)
        for f in form_names:
            self.forms_seen.add(f)
        self.names.update(field_names)
        solved, exc = None, None
        try:
            solved = solve(list(form_names), field_names=list(field_names)) if field_names else solve(list(form_names))
        except TracerBroken:
            raise
        except BaseException as e:    # noqa: every escaping exception is an abort of the solve
            if isinstance(e, (SystemExit, GeneratorExit)):
                raise
            exc = e
        self.depth = 0
        self.cur = None
        if exc is not None:
            self._emit({"ev": "abort", "kind": abort_kind(exc), "cls": type(exc).__name__, "msg": str(exc)[:200]})
        else:
            sol = s.solution()
            ev = {"ev": "finish", "solved": bool(solved),
                  "unimpl": list(s.unimplemented_fields()),
                  "unmetI": {k: list(v) for k, v in s.unmet_input_dependencies().items()},
                  "unmetF": {k: list(v) for k, v in s.unmet_field_dependencies().items()},
                  "solkeys": sorted("%s.%s" % (sec, opt) for sec in sol.sections() for opt in sol[sec])}
            self._emit(ev)
        self.solver_done = True
        return solved, exc

    # -- header ----------------------------------------------------------------------------
    def catalogue(self):
        """the catalogue record C for every form instance this run named, read off fresh Form objects"""
        names = set(self.names) | set(self.cfg0) | set(self.vals0) | set(self.fmap0)
        for ev in self.events:
            sn = ev.get("snap")
            if sn:
                names.update(sn["queue"]); names.update(sn["fmap"]); names.update(sn["specs"])
        forms = set(self.forms_seen)
        for n in names:
            if "." in n:
                forms.add(n.split(".")[0])
        base, lines, req, inps, form_of = {}, {}, {}, {}, {}
        for f in sorted(forms):
            c = f.split(":")[0]
            base[f] = c
            if c in self.form_classes:
                parts = f.split(":")
                inst = parts[1] if len(parts) == 2 else None
                try:
                    obj = self.form_classes[c](instance=inst)
                except Exception as e:    # noqa
                    raise TracerBroken("cannot instantiate %s: %r" % (f, e))
                lines[f] = sorted(x.name() for x in obj.fields())
                req[f] = [x.name() for x in obj.required_fields()]
                inps[f] = sorted(x.name() for x in obj.inputs())
                for n in lines[f] + inps[f]:
                    names.add(n)
                    form_of[n] = f
        for n in names:
            if "." in n:
                form_of.setdefault(n, n.split(".")[0])
        rank = natsort.ranks(sorted(form_of.keys()))
        return {"known": sorted(self.form_classes.keys()), "base": base, "formOf": form_of, "lines": lines,
                "req": req, "inps": inps, "rank": rank}

    def trace(self, tid=0, det=True, body=None, meta=None):
        return {"tid": tid, "mode": self.mode, "det": bool(det), "cat": self.catalogue(),
                "body": body or {}, "request": self.request, "fieldNames": self.field_names,
                "hasPrompt": self.has_prompt, "cfg0": self.cfg0, "vals0": self.vals0, "fmap0": self.fmap0,
                "events": self.events, "meta": meta or {}}
