"""Runs the repository's own unittest suite in-process with every Solver.solve() call traced, and
writes the traces (JSON list) to argv[1].  Must be started with cwd = repository root."""
import json
import os
import sys
import unittest


def main():
    out = sys.argv[1]
    import habutax.solver as S
    from tracer import Tracer
    traces = []
    orig_solve = S.Solver.solve
    active = [False]

    def traced_solve(self, form_names, field_names=[]):
        if active[0]:
            return orig_solve(self, form_names, field_names=field_names)
        active[0] = True
        try:
            with Tracer(mode="real", snap="full") as tr:
                tr.attach(self, list(self._form_map.values()))
                solved, exc = tr.run_solve(form_names, field_names, solve_fn=orig_solve)
                t = tr.trace(tid=len(traces) + 1, det=True, meta={"test": _current_test()})
                traces.append(t)
            if exc is not None:
                raise exc
            return solved
        finally:
            active[0] = False

    def _current_test():
        import inspect
        for fr in inspect.stack():
            slf = fr.frame.f_locals.get("self")
            if isinstance(slf, unittest.TestCase):
                return slf.id()
        return "?"

    S.Solver.solve = traced_solve
    try:
        suite = unittest.TestLoader().discover("tests", top_level_dir=".")
        res = unittest.TextTestRunner(stream=open(os.devnull, "w"), verbosity=0).run(suite)
    finally:
        S.Solver.solve = orig_solve
    json.dump({"traces": traces, "tests_run": res.testsRun, "failures": len(res.failures), "errors": len(res.errors)}, open(out, "w"))


if __name__ == "__main__":
    main()
