"""Derives gate candidates from the current tree (forced execution): an input value is a gate for a line if every
path of the line on which the input has that value ends in the not-implemented signal, while another value does not.
Used (a) once, to draft data/gates.json, which is then reviewed and frozen, (b) by the C09 check to report inputs that
look like gates but are missing from the frozen catalogue (freshness warning, never a violation)."""
import collections
import json
import os
import sys

import pathexplore


def derive(max_paths=3000):
    res = {}
    for year in (2021, 2022, 2023):
        recs, cat = pathexplore.explore_year(year, max_paths)
        for r in recs:
            if not r.get("gate_obs"):
                continue
            by = collections.defaultdict(lambda: [0, 0])
            for dec, out in r["gate_obs"]:
                for g, val in dec.items():
                    if g.endswith(".filing_status"):
                        continue
                    by[(g, str(val))][0 if out == "unimpl" else 1] += 1
            for (g, val), (u, o) in by.items():
                if u > 0 and o == 0 and any(by[k][1] > 0 for k in by if k[0] == g and k[1] != val):
                    gb = g.split(":")[0] + "." + g.split(".", 1)[1] if ":" in g.split(".")[0] else g
                    res.setdefault((gb, val), {}).setdefault(str(year), set()).add(r["form"].split(":")[0] + "." + r["line"])
    return {"%s=%s" % k: {y: sorted(v) for y, v in d.items()} for k, d in sorted(res.items())}


if __name__ == "__main__":
    json.dump(derive(), sys.stdout, indent=1)
