"""C11: the input pipeline (InputStore, prompt_input) against Lex.tla / InputGate.tla."""
import builtins
import configparser
import itertools
import json
import math
import os
import random
import re

import common

NUM_ALPHABET = ["1", "0", "9", "-", "+", ".", "e", "_", " ", "n", "a", "i", "f", "٣", "\xa0", "E"]
NUM_LIST = ["nan", "NaN", "NAN", "inf", "-inf", "+inf", "Inf", "INF", "infinity", "-Infinity", "1e999", "1e309", "2e308", "1e308", "1.8e308", "1.7e308", "9e307",
            "-1e999", "1e-999", "0e999", "1_0", "1__0", "_1", "1_", "1_0.0_1", "１２", "1.5", "01", "+5", "-0", "1.", ".5", ".", "-", "+", "e5", "1e", "1e+", "1 2",
            "1,000", "1,00", ",100", "1,0000", "12,345,678", "1,234.5", "$5", "-$5", "$-5", "$", "$1,000.25", "1,,000", "0x10", "1e5", "12.345", "99999999", "123456789012", "", " ", "\t7\t", " 3.50 ", "3.5.1", "--1", "+-1", "1-", "٣", "٣.٥", "1e٣", "nan0", "infx", "in", "na"]
BOOL_ALPHABET = ["y", "e", "s", "n", "o", "1", "0", " ", "t", "Y", "f"]
BOOL_LIST = ["yes", "Yes", "YES", " y ", "no", "N", "true", "True", "FALSE", "on", "off", "ON", "1", "0", "", "2", "yess", "ye", "nope", "tru", "01", "y e s", "да", "ｙ", "10", "00", "t", "f"]


def codes(s):
    return [ord(c) for c in s]


def mk(tname, **kw):
    from habutax import inputs as I
    import habutax.enum as E

    class FakeForm(object):
        def name(self):
            return "t"
    if tname == "integer":
        i = I.IntegerInput("x")
    elif tname == "float":
        i = I.FloatInput("x")
    elif tname == "boolean":
        i = I.BooleanInput("x")
    elif tname == "string":
        i = I.StringInput("x")
    elif tname == "ssn":
        i = I.SSNInput("x")
    elif tname == "routing":
        i = I.RegexInput("x", "^(0[1-9]|1[0-2]|2[1-9]|3[0-2])[0-9]{7}$")
    elif tname == "account":
        i = I.RegexInput("x", "^[0-9A-Za-z\\-]{1,17}$")
    elif tname == "prefix5":
        # a pattern input whose pattern is NOT anchored: it must still match from the first character (a ZIP code, possibly ZIP+4)
        i = I.RegexInput("x", "[0-9]{5}")
    elif tname == "enum":
        i = I.EnumInput("x", E.taxpayer_spouse_or_both, allow_empty=kw.get("blank", False))
    if kw.get("bare"):
        return i            # (a real Form initialises its inputs itself)
    i.__form_init__(FakeForm())
    return i


def through_solver(tname, s, work, blank=False):
    """the text in an input FILE, read by a line of a real form through the real Solver WITH a prompt installed (the user refuses every
    question): rejected text must stop the solve as invalid -- never be asked for as if it were missing, never be skipped"""
    from habutax import inputs as I
    from habutax.fields import IntegerField
    from habutax.form import Form
    from habutax.solver import Solver
    spec = mk(tname, blank=blank)
    rec = {"t": tname, "s": codes(s), "supplied": True, "via": "solver", "outcome": "", "vtype": "", "ival": 0, "cents": 0, "finite": True, "text": [],
           "members": [codes(m) for m in spec.enum.__members__] if tname == "enum" else [], "blankOk": bool(blank)}
    seen = {}

    class OneInput(Form):
        form_name = "t"
        tax_year = 1971
        description = "one input, one line"
        long_description = "generated"

        def __init__(self, **kwargs):
            def line(s_, i, v):
                seen["v"] = i["x"]
                return 1
            super().__init__(OneInput, [mk(tname, blank=blank, bare=True)], [IntegerField("1", line)], [], **kwargs)

        def needs_filing(self, values):
            return False
    path = os.path.join(work, "in_solver.habutax")
    with open(path, "w", encoding="utf-8") as f:
        f.write("[t]\nx = %s\n" % s)
    asked = []

    def prompt(missing, needed_by):
        asked.append(missing.name())
        return (None, False)
    try:
        solver = Solver(I.InputStore(path, {}), [OneInput], prompt=prompt)
        ok = solver.solve(["t"])
        if "t.x" in asked or "t.x" in solver.unmet_input_dependencies():
            rec["outcome"] = "missing"
        elif ok and "v" in seen:
            rec["outcome"] = "value"
            observe_value(tname, seen["v"], rec)
        else:
            rec["outcome"] = "error:skipped"        # neither a value, nor invalid, nor missing: the line was passed over
    except I.InvalidInput:
        rec["outcome"] = "invalid"
    except I.MissingInput:
        rec["outcome"] = "missing"
    except Exception as e:      # noqa
        rec["outcome"] = "error:" + type(e).__name__
    return rec


def observe_value(tname, v, rec):
    rec["vtype"] = "enum" if (tname == "enum" and v is not None) else type(v).__name__
    rec["ival"], rec["cents"], rec["finite"], rec["text"] = 0, 0, True, []
    if isinstance(v, bool):
        rec["ival"] = 1 if v else 0
    elif isinstance(v, int):
        rec["ival"] = v if abs(v) < 2 ** 31 else 0
        if abs(v) >= 2 ** 31:
            rec["big"] = True
    elif isinstance(v, float):
        rec["finite"] = math.isfinite(v)
        if rec["finite"] and abs(v) < 2e7:
            rec["cents"] = int(round(v * 100))
    elif isinstance(v, str):
        rec["text"] = codes(v)
    elif v is not None:
        rec["text"] = codes(getattr(v, "name", str(v)))


def through_store(tname, s, via, work, blank=False):
    """-> observation dict of pushing text s for an input of type tname through the real code"""
    from habutax import inputs as I
    import habutax
    spec = mk(tname, blank=blank)
    rec = {"t": tname, "s": codes(s), "supplied": True, "via": via, "outcome": "", "vtype": "", "ival": 0, "cents": 0, "finite": True, "text": [],
           "members": [codes(m) for m in spec.enum.__members__] if tname == "enum" else [], "blankOk": bool(blank)}
    conf = configparser.ConfigParser()
    store = I.InputStore(conf, {"t.x": spec})
    try:
        if via == "file":
            path = os.path.join(work, "in.habutax")
            with open(path, "w", encoding="utf-8") as f:
                f.write("[t]\nx = %s\n" % s)
            store = I.InputStore(path, {"t.x": spec})
        elif via == "set":
            conf.add_section("t")
            conf.set("t", "x", s)
        elif via == "prompt":
            calls = []

            def fake_input(prompt=""):
                calls.append(1)
                if len(calls) > 1:
                    raise EOFError()
                return s
            orig = builtins.input
            builtins.input = fake_input
            try:
                import contextlib
                import io
                with contextlib.redirect_stdout(io.StringIO()):
                    value, supplied = habutax.prompt_input(spec, [])
            except EOFError:
                rec["outcome"] = "invalid"       # the prompt refused the text and asked again
                return rec
            finally:
                builtins.input = orig
            if not supplied:
                rec["outcome"] = "invalid"
                return rec
            assert spec.valid(value)             # Solver._attempt_input
            store["t.x"] = value
        v = store["t.x"]
        rec["outcome"] = "value"
        observe_value(tname, v, rec)
    except I.InvalidInput:
        rec["outcome"] = "invalid"
    except I.MissingInput:
        rec["outcome"] = "missing"
    except Exception as e:      # noqa
        if os.environ.get("HV_DEBUG"):
            import traceback
            traceback.print_exc()
        rec["outcome"] = "error:" + type(e).__name__
    return rec


def absent(tname, blank=False):
    from habutax import inputs as I
    spec = mk(tname, blank=blank)
    rec = {"t": tname, "s": [], "supplied": False, "via": "absent", "outcome": "", "vtype": "", "ival": 0, "cents": 0, "finite": True, "text": [],
           "members": [], "blankOk": bool(blank)}
    conf = configparser.ConfigParser()
    conf.add_section("t")
    conf.set("t", "other", "1")
    store = I.InputStore(conf, {"t.x": spec})
    try:
        v = store["t.x"]
        rec["outcome"] = "value"
        observe_value(tname, v, rec)
    except I.MissingInput:
        rec["outcome"] = "missing"
    except Exception as e:     # noqa
        rec["outcome"] = "error:" + type(e).__name__
    return rec


def texts_for(tname, tier, rng):
    out = []
    if tname in ("integer", "float"):
        L = 3 if tier == "quick" else 4
        for n in range(0, L + 1):
            out += ["".join(t) for t in itertools.product(NUM_ALPHABET, repeat=n)]
        out += NUM_LIST
        for _ in range(3000 if tier == "quick" else 30000):
            out.append("".join(rng.choice(NUM_ALPHABET) for _ in range(rng.randint(L + 1, 7))))
    elif tname == "boolean":
        L = 3 if tier == "quick" else 4
        for n in range(0, L + 1):
            out += ["".join(t) for t in itertools.product(BOOL_ALPHABET, repeat=n)]
        out += BOOL_LIST
    elif tname == "enum":
        for m in ("taxpayer", "spouse", "both"):
            out += [m, " " + m + " ", m.upper(), m.capitalize(), m[:-1], m + "s", m + " x", m.replace("s", "5"), "\t" + m, m + "\xa0", m[0], '"%s"' % m, m + "\n"]
        out += ["", " ", "none", "None", "taxpayer,spouse", "taxpayer spouse", "b0th", "ｂoth"]
        # names that mean something on an enumeration CLASS without being one of its options
        out += ["mro", "name", "value", "__members__", "__doc__", "__module__", "__name__", "__class__", "_member_names_", "_member_map_", "__len__", "__init__"]
    elif tname == "ssn":
        out += ["123-45-6789", "123456789", " 123-45-6789 ", "12-345-6789", "1-2-3-4-5-6-7-8-9", "---123456789", "123-45-678", "123-45-67890", "12345678", "1234567890",
                "123-45-678a", "123 45 6789", "", "-", "٣23-45-6789", "١٢٣٤٥٦٧٨٩", "123-45-6789-", "abc-de-fghi", "123‑45‑6789"]
        for _ in range(400 if tier == "quick" else 4000):
            out.append("".join(rng.choice("1239-- a٣") for _ in range(rng.randint(7, 13))))
    elif tname == "routing":
        out += ["011000015", "121000248", "001000000", "131000000", "201000000", "211000000", "321000000", "331000000", "01100001", "0110000155", "01100001a", " 011000015 ",
                "011000015\n", "٠11000015", "", "011-000-015"]
        for _ in range(300 if tier == "quick" else 3000):
            out.append("".join(rng.choice("0123456789") for _ in range(9)))
    elif tname == "prefix5":
        out += ["27514", "27514-1234", " 27514 ", "zip 27514", "#27514", "-27514", "2751", "2751a4", "a27514", "", "275140000", "x", "٢٧٥١٤"]
        for _ in range(200 if tier == "quick" else 2000):
            out.append("".join(rng.choice("0123456789 -az#") for _ in range(rng.randint(3, 9))))
    elif tname == "account":
        out += ["12345", "A-1", "a" * 17, "a" * 18, "", " ", "12 34", "12_34", "12.34", "-", "é12", "12345\n", "١٢٣"]
        for _ in range(300 if tier == "quick" else 3000):
            out.append("".join(rng.choice("09AZaz-_ .") for _ in range(rng.randint(1, 19))))
    elif tname == "string":
        out += ["", " ", "x", "  two words  ", "\tx\t", "a=b", "ünï", "\xa0nbsp\xa0", "#hash", ";semi", "[x]", "multi\nline", "trail \n"]
        for _ in range(200 if tier == "quick" else 2000):
            out.append("".join(rng.choice("ab \t\xa0=:#;[]'\"\\é٣") for _ in range(rng.randint(0, 9))))
    seen, uniq = set(), []
    for t in out:
        if "%" in t or t in seen:
            continue
        seen.add(t)
        uniq.append(t)
    return uniq


def c11(tier):
    rep = common.Reporter("C11", tier)
    sd = common.seed()
    rng = random.Random(31 + sd)
    obs = []
    work = common.mkwork()
    try:
        for tname in ("integer", "float", "boolean", "enum", "ssn", "routing", "account", "prefix5", "string"):
            texts = texts_for(tname, tier, rng)
            for blank in ((False, True) if tname == "enum" else (False,)):
                for s in texts:
                    vias = ["set", "prompt"]
                    if "\n" not in s and "\r" not in s and not any(ord(c) in (11, 12, 28, 29, 30, 31, 133) for c in s):
                        vias.append("file")
                    if tier == "quick" and len(texts) > 3000:
                        vias = [vias[hash(s) % len(vias)]] if len(s) > 2 else vias
                    if "file" in vias and (len(texts) <= 3000 or hash(s) % 4 == 0 or len(s) <= 2):
                        vias.append("solver")
                    for via in vias:
                        r = through_solver(tname, s, work, blank=blank) if via == "solver" else through_store(tname, s, via, work, blank=blank)
                        if via == "file":
                            # the INI reader strips the text itself; the classification is of what the store was given
                            pass
                        r["oid"] = len(obs) + 1
                        obs.append(r)
                r = absent(tname, blank=blank)
                r["oid"] = len(obs) + 1
                obs.append(r)
        # one JVM per slice
        from concurrent.futures import ThreadPoolExecutor
        nj = 8
        parts = [obs[i::nj] for i in range(nj)]
        outs = []

        def one(j):
            path = os.path.join(work, "obs%d.json" % j)
            json.dump({"obs": [{k: v for k, v in o.items() if k not in ("via", "big")} for o in parts[j]]}, open(path, "w"))
            cfgp = os.path.join(work, "c%d.cfg" % j)
            open(cfgp, "w").write("SPECIFICATION Spec\nCHECK_DEADLOCK FALSE\n")
            return common.run_tlc(os.path.join(common.SPEC, "InputGate.tla"), cfgp, cwd=work, workers=1, env={"HV_IN_FILE": path}, timeout=3000, heap="3g")
        with ThreadPoolExecutor(max_workers=nj) as ex:
            outs = list(ex.map(one, range(nj)))
    finally:
        common.rmwork(work)
    states = 0
    byid = {o["oid"]: o for o in obs}
    groups = {}
    for j, res in enumerate(outs):
        if res.rc != 0 or res.distinct != len(parts[j]) + 1:
            raise common.MachineryError("InputGate.tla failed (rc=%s, %d states for %d observations)\n%s" % (res.rc, res.distinct, len(parts[j]), res.error_excerpt(40)))
        states += res.distinct
        for m in re.finditer(r'^"C11\|(\d+)\|(.*)\|"$', res.out, re.M):
            o = byid[int(m.group(1))]
            s = "".join(chr(c) for c in o["s"])
            groups.setdefault((o["t"], m.group(2)), []).append((s, o["via"]))
    for (t, msg), lst in sorted(groups.items()):
        # the locus names the type, the failure and the kind of text: the alphabetic words (nan / inf ...) or the shape
        words = sorted(set(re.sub(r"[^a-z]", "", s.lower()) for s, _ in lst))[:6]
        rep.violation("input:%s:%s" % (t, msg[:80]), "%d texts, e.g. %r (word shapes %s): %s" % (len(lst), [x for x in lst[:6]], words, msg),
                      {"kind": "input-text", "type": t, "texts": [s for s, _ in lst[:40]]})
    bytype = {}
    for o in obs:
        bytype[o["t"]] = bytype.get(o["t"], 0) + 1
    extra = {}
    store_object_check(rep, extra, tier)
    cov = {"store_transitions_validated": extra.get("store_transitions_validated", 0), "evaluations": len(obs), "distinct_nontrivial": len(set((o["t"], tuple(o["s"])) for o in obs)),
           "rule": "per input type: every text up to length %d over an adversarial alphabet (digits, signs, point, exponent, underscore, space, NBSP, n a i f, a non-ASCII digit), hand-picked corner cases "
                   "(nan/inf/overflow/underscores/unicode/near-miss names/8-10 digit SSNs) and seeded longer ones, supplied by set(), by file and through prompt_input; plus the not-supplied case" % (3 if tier == "quick" else 4),
           "samples": [{k: v for k, v in obs[77].items() if k in ("t", "outcome", "vtype", "via")}, "".join(chr(c) for c in obs[77]["s"])],
           "observations_by_type": bytype, "states": states,
           "explanation": "TLC classifies every text with Lex.tla (must / may / reject + denotation) and evaluates InputGate.tla on the real outcome"}
    return rep, "exploration", cov, ["correct rounding of binary floating point is not decided: numeric equality at cent precision for plain decimals with at most two fraction digits",
                                     "text containing '%' (configparser interpolation error) is outside the explored alphabet"]


# ---------------------------------------------------------------------------------------------
# InputStore as an object: every transition of the real object's reachable graph against StoreTrace.tla

class StoreDriver(object):
    NAMES = ["t.x", "t.y"]

    def __init__(self, work):
        from habutax import inputs as I

        class FakeForm(object):
            def name(self):
                return "t"
        self.I = I
        self.specs = {}
        for n in self.NAMES:
            i = I.IntegerInput(n.split(".")[1])
            i.__form_init__(FakeForm())
            self.specs[n] = i
        self.store = I.InputStore(configparser.ConfigParser(), dict(self.specs))
        self.work = work

    def apply(self, op):
        I, s = self.I, self.store
        k = op.get("k")
        if op["op"] == "get":
            try:
                return str(s[k])
            except I.MissingInputSpecification:
                return "nospec"
            except I.MissingInput:
                return "missing"
            except I.InvalidInput:
                return "invalid"
            except Exception as e:      # noqa -- not an outcome of the specification: reported as such, judged by StoreTrace.tla
                return "escaped:" + type(e).__name__
        if op["op"] == "set":
            s[k] = op["t"]
            return "None"
        if op["op"] == "del":
            try:
                del s[k]
                return "None"
            except Exception:      # noqa
                return "error"
        if op["op"] == "has":
            return str(k in s)
        if op["op"] == "reload":
            path = os.path.join(self.work, "store.ini")
            open(path, "a").close()
            s.write(path)
            self.store = I.InputStore(path, dict(self.specs))
            return "None"
        raise ValueError(op)

    def state(self):
        c = self.store.config
        return {"%s.%s" % (sec, o): c.get(sec, o, raw=True) for sec in c.sections() for o in c[sec]}


def store_graph(work, max_ops):
    names = StoreDriver.NAMES
    ops = []
    for n in names:
        ops += [{"op": "get", "k": n}, {"op": "has", "k": n}, {"op": "del", "k": n}]
        ops += [{"op": "set", "k": n, "t": t} for t in ("0", "1", "bad")]
    ops.append({"op": "reload"})
    seen = {"{}": []}
    frontier = [[]]
    trans = []
    while frontier:
        nxt = []
        for hist in frontier:
            if len(hist) >= max_ops:
                continue
            for op in ops:
                d = StoreDriver(work)
                for h in hist:
                    d.apply(h)
                pre = d.state()
                ret = d.apply(op)
                post = d.state()
                trans.append({"pre": pre, "op": op, "post": post, "ret": ret, "specs": names})
                # the history matters (a cache would): keep histories distinct up to the bound, but prune pure observers
                if op["op"] in ("set", "del", "reload", "get"):
                    key = json.dumps([post, [h for h in (hist + [op])][-3:]], sort_keys=True)
                    if key not in seen:
                        seen[key] = 1
                        nxt.append(hist + [op])
        frontier = nxt
    return trans


def store_object_check(rep, cov, tier):
    work = common.mkwork()
    try:
        trans = store_graph(work, 4 if tier == "quick" else 5)
        path = os.path.join(work, "store.json")
        json.dump({"trans": trans}, open(path, "w"))
        cfgp = os.path.join(work, "s.cfg")
        open(cfgp, "w").write("SPECIFICATION VSpec\nCHECK_DEADLOCK FALSE\n")
        res = common.run_tlc(os.path.join(common.SPEC, "StoreTrace.tla"), cfgp, cwd=work, workers=1, env={"HV_STORE_FILE": path}, timeout=1800, heap="6g")
    finally:
        common.rmwork(work)
    if res.rc != 0 or res.distinct != len(trans) + 1:
        raise common.MachineryError("StoreTrace.tla failed (rc=%s)\n%s" % (res.rc, res.error_excerpt(40)))
    for m in re.finditer(r'^"STORE\|(\d+)\|"$', res.out, re.M):
        x = trans[int(m.group(1)) - 1]
        rep.violation("store:%s:%s" % (x["op"]["op"], x["ret"]), "InputStore %s from %s gives %s / %s, not what StoreTrace!Step gives" % (x["op"], x["pre"], x["post"], x["ret"]),
                      {"kind": "store-transition", "transition": x})
    cov["store_transitions_validated"] = len(trans)
