"""Demonstration that the binding bites (DESIGN 4.3): recorded traces of real executions are corrupted in one place
and SolverTrace.tla must reject every corrupted trace (and accept the originals).   ./check selftest"""
import copy
import json
import random

import common
import progs as progs_mod
import runs
import scenarios


def corruptions(trace, rng):
    """-> list of (label, corrupted trace)"""
    out = []
    evs = trace["events"]
    att = [k for k, e in enumerate(evs) if e["ev"] == "attempt"]
    stores = [k for k in att if evs[k]["out"]["o"] == "val" and evs[k]["reads"]]
    fin = [k for k, e in enumerate(evs) if e["ev"] == "finish"]
    drains = [k for k, e in enumerate(evs) if e["ev"] == "drain" and len(e["items"]) >= 1]
    asks = [k for k, e in enumerate(evs) if e["ev"] == "ask"]

    def mk(label, fn):
        t = copy.deepcopy(trace)
        try:
            fn(t["events"])
        except (IndexError, KeyError):
            return
        out.append((label, t))
    if stores:
        k = rng.choice(stores)
        mk("a read digest changed (stale read)", lambda e: e[k]["reads"][0].__setitem__(2, "s:corrupted" if trace["mode"] == "real" else 7))
    if fin:
        k = fin[0]
        mk("verdict flipped", lambda e: e[k].__setitem__("solved", not e[k]["solved"]))
        mk("a solution key dropped", lambda e: e[k]["solkeys"].pop())
    if att:
        k = rng.choice(att)
        mk("an attempt event removed", lambda e: e.pop(k))
        mk("an attempt duplicated", lambda e: e.insert(k, copy.deepcopy(e[k])))
    if drains:
        k = rng.choice(drains)
        mk("a released waiter dropped from a drain", lambda e: e[k]["items"].pop())
        mk("a waiter released twice", lambda e: e[k]["items"].append(e[k]["items"][0]))
    if asks:
        k = asks[0]
        mk("prompt for another input", lambda e: e[k].__setitem__("input", e[k]["input"] + "x"))
        mk("needed_by emptied", lambda e: e[k].__setitem__("needed_by", []))
    if len(att) > 3:
        k = att[1]
        mk("scalar state changed (one more stored value)", lambda e: e[k]["sc"].__setitem__("vals", e[k]["sc"]["vals"] + 1))
    return out


def selftest():
    rng = random.Random(11)
    base = []
    ps = progs_mod.generate(16, 77, max_forms=2, max_lines=3, max_inputs=2, depth=2)
    tid = 0
    for p in ps:
        x = progs_mod.expand(p)
        forms = progs_mod.build_forms(p)
        tot = {i: rng.choice(["0", "1"]) for i in sorted(x["all_inputs"])}
        tid += 1
        tr, res, _s = runs.run_traced(forms, runs.make_config({}), p["request"], p["fieldNames"], user=runs.ScriptedUser(tot), mode="prog", tid=tid,
                                      body=x["body"], names=list(x["formOf"].keys()), max_events=2000)
        base.append(tr)
    for year in scenarios.YEARS:
        r2 = random.Random(year)
        prof = scenarios.Profile(r2, year=year, nc=False)
        tid += 1
        tr, res, _s, _a = scenarios.solve_scenario(year, ["1040"], prof, r2, tid=tid, snap="scalars")
        base.append(tr)
    cases = []
    for tr in base:
        for label, t in corruptions(tr, rng):
            tid += 1
            t["tid"] = tid
            cases.append((label, tr["tid"], t))
    work = common.mkwork()
    try:
        verdicts, st, tn = runs.validate_parallel(base + [c[2] for c in cases], work)
    finally:
        common.rmwork(work)
    bad = 0
    for tr in base:
        if verdicts[tr["tid"]][2]:
            print("SELFTEST FAIL: an uncorrupted trace is rejected: %s" % (verdicts[tr["tid"]],))
            bad += 1
    bylabel = {}
    for label, orig, t in cases:
        consumed, total, err = verdicts[t["tid"]]
        ok = bool(err)
        bylabel.setdefault(label, [0, 0])
        bylabel[label][0 if ok else 1] += 1
        if not ok:
            print("SELFTEST FAIL: corrupted trace accepted (%s, from trace %d)" % (label, orig))
            bad += 1
    for label, (rej, acc) in sorted(bylabel.items()):
        print("corruption %-48s rejected %3d accepted %d" % (label, rej, acc))
    print("selftest: %d original traces accepted, %d corrupted traces, %d failures" % (len(base), len(cases), bad))
    return 1 if bad else 0
