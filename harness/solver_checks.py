"""Checks for the dependency-solver properties C01, C03, C04, C05, C06, C13 on generated programs
(model checking + trace validation + terminal-observation judging) -- DESIGN sections 3.1, 6."""
import json
import os
import random
import shutil
import sys
import time

import common
import progs as progs_mod
import runs

PROPS = {
    "C01": {"inv": ["TypeOK", "NoSilentSuccess", "FailureIsNamed", "TerminalShape", "AbortIsDenoted", "DoneMeansNoAbort"], "props": []},
    "C03": {"inv": ["FixedPoint"], "props": ["WriteOnce", "InputsOnlyAdded"]},
    "C04": {"inv": ["ClosureComplete", "ClosureSound", "EqualsDenotation"], "props": []},
    "C05": {"inv": ["EqualsDenotation", "AbortIsDenoted", "DoneMeansNoAbort"], "props": []},
    "C06": {"inv": ["NoLostWaiter", "NoEarlyRelease", "QueueSolving", "AskAtMostOnce", "EvalBound", "EnqBound", "LoadBound", "NoRepeatWait"],
            "props": ["Terminates"], "ghost": True},
    "C13": {"inv": ["AskOnlyDemandedMissing", "UnreadNotRequired"], "props": ["NoAskAfterRefusal"]},
}

JUDGE_COL = {"C01": 0, "C03": 1, "C04": 2, "C05": 3, "C06": 4, "C13": 5}


class Owners(str):
    """the property a rejection is attributed to; compares equal to every property that owns the rejection"""
    also = ()

    def __eq__(self, other):
        return str.__eq__(self, other) or other in self.also

    def __ne__(self, other):
        return not self.__eq__(other)

    __hash__ = str.__hash__


def owner_of(err):
    """which property a step-wise trace rejection speaks about"""
    e = err
    if "a needed input is missing" in e:
        # a line went on with a value for an input nobody supplied: the success that follows is silent (C01), the value is not a fixed point (C03)
        o = Owners("C01")
        o.also = ("C03",)
        return o
    if e.startswith("ask:") or "refused flag" in e:
        return "C13"
    if e.startswith("drain:") or "queue" in e or "tracker" in e or "dependencies" in e or "NoLostWaiter" in e or "solving set" in e \
            or "NoEarlyRelease" in e or "Shape" in e or "schedule allows" in e or "returned in phase" in e \
            or "work bound" in e:
        return "C06"
    if "stale or phantom" in e or "stored values" in e or "AttemptProg" in e or "impossible in the current state" in e \
            or "known input" in e:
        return "C03"
    if "forms" in e or "field map" in e or "solving set" in e or "solution() keys" in e or "input specifications" in e \
            or "catalogue header" in e:
        return "C04"
    return "C01"


def write_cfg(path, pid, det=False, ghost=None, env=(True, True, False, True), liveness=True):
    p = PROPS[pid]
    ghost = p.get("ghost", False) if ghost is None else ghost
    b = lambda x: "TRUE" if x else "FALSE"
    with open(path, "w") as f:
        f.write("CONSTANTS\n  Programs <- GenPrograms\n  DetSched = %s\n  EnvRefuse = %s\n  EnvEof = %s\n"
                "  EnvBadAnswer = %s\n  EnvBadFile = %s\n  Ghost = %s\nSPECIFICATION Spec\nCHECK_DEADLOCK FALSE\n"
                % (b(det), b(env[0]), b(env[1]), b(env[2]), b(env[3]), b(ghost)))
        for i in p["inv"]:
            f.write("INVARIANT %s\n" % i)
        for i in p["props"]:
            if i == "Terminates" and not liveness:
                continue
            f.write("PROPERTY %s\n" % i)


def prepare_model_dir(work, programs):
    progs_mod.emit_module(programs, os.path.join(work, "GenProgs.tla"))
    shutil.copy(os.path.join(common.SPEC, "MCSolver.tla"), work)


def family(tier, seed_, which):
    """program families: 'small' is model checked exhaustively over all schedules; 'large' is only simulated / traced"""
    if which == "small":
        n = 40 if tier == "quick" else 380        # random programs, in addition to the hand-written ones
        # every schedule of these is explored, so the number of (expanded) lines is bounded: the interleavings of more than
        # about six outstanding lines make a single program's state space explode
        cand = progs_mod.generate(4 * n, 1000 + seed_, max_forms=2, max_lines=3, max_inputs=2, depth=2)
        nh = len(progs_mod.HANDMADE)
        out, nrand = [], 0
        for k, p in enumerate(cand):
            x = progs_mod.expand(p)
            if len(x["all_lines"]) <= 6 and len(x["all_inputs"]) <= 3:
                if k >= nh:
                    if nrand == n:
                        continue
                    nrand += 1
                out.append(p)
        return out
    n = 25 if tier == "quick" else 280         # random programs, in addition to the hand-written ones
    ps = progs_mod.generate(n, 2000 + seed_, max_forms=3, max_lines=5, max_inputs=3, depth=3)
    for p in ps:
        p["id"] += 10000
    return ps


# ---------------------------------------------------------------------------------------------
# real executions of generated programs

def observe(trace, res, solver, prog, oid, cfg0, meta):
    """terminal observation for Judge.tla from one traced real run"""
    conf = solver._i.config
    cfg = {}
    for sec in conf.sections():
        for opt in conf[sec]:
            raw = conf.get(sec, opt, raw=True).strip()
            cfg["%s.%s" % (sec, opt)] = 0 if raw in ("0", "") else 1 if raw == "1" else 2      # (a blank is a valid answer: zero)
    c0 = {k: (0 if v == "0" else 1 if v == "1" else 2) for k, v in cfg0.items()}
    attempts, drained, waits, loads = {}, {}, {}, {}
    asks = []
    prompt_abort = False
    for ev in trace["events"]:
        if ev["ev"] == "attempt":
            l = ev["line"]
            attempts[l] = attempts.get(l, 0) + 1
            loads[l] = loads.get(l, 0) + len(ev["loads"])
            if ev["out"]["o"] in ("nofield", "noinput"):
                waits.setdefault(l, []).append(ev["out"]["n"])
        elif ev["ev"] == "drain":
            for l in ev["items"]:
                drained[l] = drained.get(l, 0) + 1
        elif ev["ev"] == "ask":
            asks.append({"i": ev["input"], "by": ev["needed_by"], "supplied": ev["supplied"]})
            if ev["esc"]:
                prompt_abort = True
    lines = sorted(attempts)
    o = {"oid": oid, "prog": prog["_index"], "cfg0": c0, "cfg": cfg, "abort": res["abort"], "promptAbort": prompt_abort,
         "solved": bool(res.get("solved", False)), "asks": asks,
         "evals": {l: attempts[l] + loads.get(l, 0) for l in lines},
         "enq": {l: attempts[l] - drained.get(l, 0) for l in lines},
         "waits": {l: waits.get(l, []) for l in lines}, "loads": {l: loads.get(l, 0) for l in lines}}
    if res["abort"] == "":
        o["vals"] = {k: progs_mod.plain_value(v) for k, v in res["values"].items()}
        o["forms"] = res["forms"]
        o["unimpl"] = res["unimpl"]
        o["missing"] = res["missing"]
        o["blocked"] = res["blocked"]
    else:
        o["vals"] = {k: progs_mod.plain_value(v) for k, v in solver._v.values.items()}
        o["forms"] = sorted(solver.forms.keys())
        o["unimpl"], o["missing"], o["blocked"] = [], {}, {}
    return o


def work_bound(x):
    """work bound of a run (events): the longest run on the unchanged tree has 2.8 events per line-or-input, this allows 40 (a run
    that goes round in circles makes every step slower than the last, so the bound stays near what a finite solve can need)"""
    return min(2000, max(200, 40 * (2 + len(x["all_lines"]) + len(x["all_inputs"]))))


def scenarios_for(prog, x, rng, per_prog):
    """-> list of dicts: cfg0, answers, prompt, at, sched, reqorder, key.  Runs with the same key were given the
    same values for every input (by file or by prompt, any schedule, any request order) and must agree."""
    inputs = sorted(x["all_inputs"])
    out = []
    ngroups = max(1, per_prog // 6)
    for gk in range(ngroups):
        total = {i: rng.choice(["0", "1"]) for i in inputs}          # a total assignment A
        key = ("A", tuple(sorted(total.items())))
        split = lambda q: {i: v for i, v in total.items() if rng.random() < q}
        out.append(dict(cfg0=dict(total), answers={}, prompt=False, sched="nat", req=None, key=key, probe_unread=(gk == 0)))
        out.append(dict(cfg0={}, answers=dict(total), prompt=True, sched="nat", req=None, key=key))
        out.append(dict(cfg0=split(0.5), answers=dict(total), prompt=True, sched="rnd", req=None, key=key))
        out.append(dict(cfg0=dict(total), answers={}, prompt=False, sched="rev", req="shuffle", key=key))
        out.append(dict(cfg0=split(0.5), answers=dict(total), prompt=True, sched="rnd", req="shuffle", key=key))
        out.append(dict(cfg0=dict(total), answers={}, prompt=False, sched="rnd", req=None, key=key))
    # partial file without prompt, possibly with invalid text
    part = {i: rng.choice(["0", "1"]) for i in inputs if rng.random() < 0.6}
    if inputs and rng.random() < 0.25:
        part[rng.choice(inputs)] = "bad"
    pk = ("F", tuple(sorted(part.items())))
    out.append(dict(cfg0=dict(part), answers={}, prompt=False, sched="nat", req=None, key=pk))
    out.append(dict(cfg0={i: rng.choice(["0", "1"]) for i in inputs}, answers={}, prompt=False, sched="nat", req=None, key=None, whatif=True))
    out.append(dict(cfg0={i: rng.choice(["0", "1"]) for i in inputs}, answers={}, prompt=False, sched="nat", req=None, key=None, whatif=True))
    out.append(dict(cfg0=dict(part), answers={}, prompt=False, sched="rnd", req="shuffle", key=pk))
    # the user stops answering at prompt k: refuses, input ends, or types rubbish
    total = {i: rng.choice(["0", "1"]) for i in inputs}
    for k in (1, 2, 3):
        out.append(dict(cfg0={}, answers=dict(total), prompt=True, at={k: "REFUSE"}, sched="nat" if k != 2 else "rnd", req=None, key=None))
    if inputs:
        badfile = {i: rng.choice(["0", "1"]) for i in inputs if rng.random() < 0.5}
        badfile[rng.choice(inputs)] = "bad"          # supplied, but not a valid value: must never be asked for, never read as missing
        out.append(dict(cfg0=badfile, answers=dict(total), prompt=True, sched="nat", req=None, key=None))
    if len(inputs) >= 2:
        # everything but the first input is already in the file: the prompts must be for that one input only
        total2 = {i: rng.choice(["0", "1"]) for i in inputs}
        out.append(dict(cfg0={i: total2[i] for i in inputs[1:]}, answers=dict(total2), prompt=True, sched="nat", req=None, key=None))
    if inputs:
        # the user answers with a BLANK line wherever the answer is zero (valid: a blank number is zero); the answer counts as given
        out.append(dict(cfg0={}, answers={i: ("" if v == "0" or n == 0 else v) for n, (i, v) in enumerate(sorted(total.items()))}, prompt=True,
                        sched="nat", req=None, key=None))
    kind = rng.choice(["EOF", "BAD"])
    out.append(dict(cfg0={}, answers=dict(total), prompt=True, at={rng.choice([1, 2]): kind}, sched="nat", req=None, key=None))
    return out


def real_runs(programs, rng, per_prog, snap="full"):
    traces, obs, groups = [], [], {}
    tid = 0
    for prog in programs:
        x = progs_mod.expand(prog)
        forms = progs_mod.build_forms(prog)
        for sc in scenarios_for(prog, x, rng, per_prog):
            cfg0, answers, has_prompt, sched, reqorder, key = sc["cfg0"], sc["answers"], sc["prompt"], sc["sched"], sc["req"], sc["key"]
            tid += 1
            user = runs.ScriptedUser(answers, at=sc.get("at")) if has_prompt else None
            chooser = None
            if sched == "rnd":
                chooser = runs.random_chooser(random.Random(rng.random()))
            elif sched == "rev":
                chooser = runs.reverse_chooser
            request = list(prog["request"])
            if reqorder == "shuffle":
                rng.shuffle(request)
            meta = {"prog": prog["id"], "cfg0": cfg0, "answers": answers, "prompt": has_prompt, "at": sc.get("at"), "sched": sched, "request": request}
            trace, res, solver = runs.run_traced(forms, runs.make_config(cfg0), request, prog["fieldNames"], user=user,
                                                 chooser=chooser, mode="prog", snap=snap, tid=tid, body=x["body"], meta=meta, max_events=work_bound(x),
                                                 names=list(x["formOf"].keys()))
            traces.append(trace)
            if trace.get("overflow"):
                continue              # no terminal observation: the trace itself is rejected (work bound)
            obs.append(observe(trace, res, solver, prog, tid, cfg0, meta))
            if sc.get("whatif") and not trace.get("overflow"):
                # a second solve on the SAME input store after the user changed an input that the first solve read
                read = sorted(set(n for ev in trace["events"] if ev["ev"] == "attempt" for (k3, n, _d) in ev["reads"] if k3 == "in"))
                if read:
                    name = rng.choice(read)
                    store = solver._i
                    cfg2 = dict(cfg0)
                    if rng.random() < 0.5:
                        store[name] = "1" if store.config.get(*name.split(".", 1)).strip() == "0" else "0"
                        cfg2[name] = store.config.get(*name.split(".", 1))
                    else:
                        del store[name]              # the user takes the input away again
                        cfg2.pop(name, None)
                    tid += 1
                    meta2 = dict(meta)
                    meta2.update({"whatif": name, "cfg0": cfg2})
                    t2, r2, s2 = runs.run_traced(forms, None, request, prog["fieldNames"], user=None, chooser=None, mode="prog", snap=snap, tid=tid,
                                                 body=x["body"], meta=meta2, max_events=work_bound(x), names=list(x["formOf"].keys()), store=store)
                    traces.append(t2)
                    if not t2.get("overflow"):
                        obs.append(observe(t2, r2, s2, prog, tid, cfg2, meta2))
            if sc.get("probe_unread") and res["abort"] == "" and not trace.get("overflow"):
                # the same file once more, an input that NO line read now holding a value that is not valid: nothing may change
                read = set(n for ev in trace["events"] if ev["ev"] == "attempt" for (k3, n, _d) in ev["reads"] if k3 == "in")
                # (first those of forms that take part in the solve: their inputs are known to the store)
                unread = sorted((i for i in cfg0 if i not in read), key=lambda i: (i.split(".")[0] not in res["forms"], i))
                if unread:
                    cfg3 = dict(cfg0)
                    cfg3[unread[0]] = "bad"
                    tid += 1
                    meta3 = dict(meta)
                    meta3.update({"cfg0": cfg3, "unread_invalid": unread[0]})
                    t3, r3, s3 = runs.run_traced(forms, runs.make_config(cfg3), request, prog["fieldNames"], user=None, chooser=None, mode="prog", snap=snap,
                                                 tid=tid, body=x["body"], meta=meta3, max_events=work_bound(x), names=list(x["formOf"].keys()))
                    traces.append(t3)
                    if not t3.get("overflow"):
                        obs.append(observe(t3, r3, s3, prog, tid, cfg3, meta3))
            if key is not None:
                # aborts are compared as a class: which of several reachable aborts is hit first depends on the order
                canon = json.dumps(res if res["abort"] == "" else {"abort": "some"}, sort_keys=True)
                groups.setdefault((prog["id"], tuple(sorted(request))) + key, []).append((tid, canon))
    return traces, obs, groups


class DfsChooser(object):
    """enumerates ALL schedules of the real solver through the hook: every choice point picks, by successive
    decisions, which of the remaining items comes next; decision sequences are explored depth-first"""

    def __init__(self):
        self.prefix, self.arity, self.pos = [], [], 0

    def reset(self):
        self.pos = 0

    def choose(self, n):
        if n <= 1:
            return 0
        if self.pos < len(self.prefix):
            c = self.prefix[self.pos]
        else:
            c = 0
            self.prefix.append(0)
            self.arity.append(n)
        self.pos += 1
        return c

    def __call__(self, site, items):
        items = list(items)
        if site == "pop":
            # only the element popped matters: one decision
            k = self.choose(len(items))
            chosen = items.pop(k)
            return items + [chosen]
        out = []
        while items:
            out.append(items.pop(self.choose(len(items))))
        return out

    def advance(self):
        del self.prefix[self.pos:]
        del self.arity[self.pos:]
        while self.prefix:
            if self.prefix[-1] + 1 < self.arity[-1]:
                self.prefix[-1] += 1
                return True
            self.prefix.pop()
            self.arity.pop()
        return False


def all_schedules(prog, x, forms, cfg0, cap):
    """-> (set of canonical results, number of schedules run, exhausted?) of the real solver over every attempt order"""
    ch = DfsChooser()
    results, n = {}, 0
    while True:
        ch.reset()
        tr, res, solver = runs.run_traced(forms, runs.make_config(cfg0), list(prog["request"]), prog["fieldNames"], user=None, chooser=ch,
                                          mode="prog", snap="none", tid=0, body=None, max_events=work_bound(x), names=list(x["formOf"].keys()))
        canon = json.dumps(res if res["abort"] == "" else {"abort": "some"}, sort_keys=True)
        results.setdefault(canon, list(ch.prefix))
        n += 1
        if not ch.advance():
            return results, n, True
        if n >= cap:
            return results, n, False


def default_section_runs(programs, rng):
    """C03 only: input files with a [DEFAULT] section.  configparser shows a DEFAULT value in every section that EXISTS, so an
    input can be missing at first (its section is not there yet), become readable when an answer creates the section, and then
    be answered differently.  The step-wise specification does not model DEFAULT (DESIGN 12.2); these runs are only judged at
    the end: every stored value must be what its definition yields on the final inputs (Judge.tla J03)."""
    import configparser
    obs, metas = [], {}
    oid = 0
    for prog in programs:
        x = progs_mod.expand(prog)
        inputs = sorted(x["all_inputs"])
        by_sec = {}
        for i in inputs:
            by_sec.setdefault(i.split(".")[0], []).append(i)
        if not any(len(v) > 1 for v in by_sec.values()):
            continue
        forms = progs_mod.build_forms(prog)
        for k in range(2):
            dflt = {b: rng.choice(["0", "1"]) for b in sorted(set(i.split(".", 1)[1] for i in inputs)) if rng.random() < 0.8}
            if not dflt:
                continue
            conf = configparser.ConfigParser()
            conf["DEFAULT"] = dict(dflt)
            explicit = {}
            if k == 1:
                for i in inputs:
                    if rng.random() < 0.2:
                        explicit[i] = rng.choice(["0", "1"])
                        if not conf.has_section(i.split(".")[0]):
                            conf.add_section(i.split(".")[0])
                        conf.set(i.split(".")[0], i.split(".", 1)[1], explicit[i])
            # the user's answers contradict the DEFAULT values
            answers = {i: ("1" if dflt.get(i.split(".", 1)[1], "0") == "0" else "0") for i in inputs}
            chooser = runs.random_chooser(random.Random(rng.random())) if k == 1 else None
            oid += 1
            meta = {"prog": prog["id"], "default_section": dflt, "cfg0": explicit, "answers": answers, "prompt": True, "sched": "rnd" if k == 1 else "nat",
                    "request": list(prog["request"])}
            trace, res, solver = runs.run_traced(forms, conf, list(prog["request"]), prog["fieldNames"], user=runs.ScriptedUser(answers), chooser=chooser,
                                                 mode="prog", snap="none", tid=oid, body=x["body"], meta=meta, max_events=work_bound(x), names=list(x["formOf"].keys()))
            if trace.get("overflow"):
                continue
            o = observe(trace, res, solver, prog, oid, explicit, meta)
            o["cfg"] = {n: v for n, v in o["cfg"].items() if n in x["formOf"]}       # DEFAULT keys show under every section
            obs.append(o)
            metas[oid] = meta
    return obs, metas


def judge(work, programs, obs):
    """TLC evaluates Judge.tla on the observations -> {oid: [6 messages]}"""
    progs_mod.emit_module(programs, os.path.join(work, "GenProgs.tla"))
    path = os.path.join(work, "obs.json")
    with open(path, "w") as f:
        json.dump({"obs": obs}, f)
    cfgp = os.path.join(work, "judge.cfg")
    with open(cfgp, "w") as f:
        f.write("SPECIFICATION JSpec\nCHECK_DEADLOCK FALSE\n")
    shutil.copy(os.path.join(common.SPEC, "Judge.tla"), work)
    res = common.run_tlc("Judge", cfgp, cwd=work, workers=1, env={"HV_OBS_FILE": path}, timeout=1800)
    import re
    out = {}
    for m in re.finditer(r'^"JUDGE\|(\d+)\|([^|]*)\|([^|]*)\|([^|]*)\|([^|]*)\|([^|]*)\|([^|]*)\|"$', res.out, re.M):
        out[int(m.group(1))] = [m.group(k) for k in range(2, 8)]
    if len(out) != len(obs) or res.rc != 0:
        raise common.MachineryError("Judge.tla did not judge every observation (rc=%s, %d/%d)\n%s" % (res.rc, len(out), len(obs), res.error_excerpt(40)))
    return out, res


# ---------------------------------------------------------------------------------------------

def run(pid, tier):
    rep = common.Reporter(pid, tier)
    sd = common.seed()
    rng = random.Random(77 + sd)
    work = common.mkwork()
    cov = {"samples": []}
    try:
        # (M) design model, all schedules
        small = family(tier, sd, "small")
        for k, p in enumerate(small):
            p["_index"] = k + 1
        cfgp = os.path.join(work, "mc.cfg")
        write_cfg(cfgp, pid)
        t0 = time.time()
        cov["states"], cov["transitions"] = 0, 0
        actions = {}
        CH = 40                      # programs per TLC run (the constant is parsed and kept in memory per run)
        for off in range(0, len(small), CH):
            prepare_model_dir(work, small[off:off + CH])
            mc = common.run_tlc("MCSolver", cfgp, cwd=work, timeout=3000 if tier == "thorough" else 900, coverage=(tier == "thorough"), heap="24g")
            if mc.violated:
                for v in mc.violated:
                    rep.violation("model:%s" % v, mc.error_excerpt(80), {"kind": "tlc-counterexample", "property_formula": v})
            elif not mc.ok:
                raise common.MachineryError("TLC failed on the design model:\n" + mc.error_excerpt(60))
            cov["states"] += mc.distinct
            cov["transitions"] += mc.generated
            if tier == "thorough":
                c = mc.coverage()
                for a in c:
                    if a in ("Start", "Silent", "Pop", "FDrain", "BufAttempt", "Ask", "IDrain", "Finish"):
                        actions[a] = actions.get(a, 0) + c[a][1]
        cov["model_programs"] = len(small)
        cov["model_formulas"] = PROPS[pid]["inv"] + PROPS[pid]["props"]
        cov["model_wall_s"] = round(time.time() - t0, 1)
        if tier == "thorough":
            cov["action_coverage"] = actions
            never = [a for a in ("Start", "Silent", "Pop", "FDrain", "BufAttempt", "Ask", "IDrain", "Finish") if actions.get(a, 0) == 0]
            if never:
                raise common.MachineryError("vacuous model run: actions never taken: %s" % never)

        # (T)+(J) the real solver on the same programs and on larger ones
        large = family(tier, sd, "large")
        allp = small + large
        for k, p in enumerate(allp):
            p["_index"] = k + 1
        per = 6 if tier == "quick" else 18
        traces, obs, groups = real_runs(allp, rng, per)
        verdicts, tstates, ttrans = runs.validate_parallel(traces, work)
        rejected = {}
        for tr in traces:
            consumed, total, err = verdicts[tr["tid"]]
            if tr.get("overflow") and pid == "C06":
                # whatever the first rejected step says (and whoever owns it): the solve did not stop within its work bound
                rep.violation("trace:prog%d:work bound exceeded" % tr["meta"]["prog"],
                              "the solve produced more than the bounded number of events (livelock or unbounded retry); first rejected step: %s" % (err or "none"),
                              {"kind": "program-run", "meta": tr["meta"], "prog_id": tr["meta"]["prog"], "seed": sd})
            if err:
                rejected[tr["tid"]] = err
                own = owner_of(err)
                if own == pid:
                    rep.violation("trace:prog%d:%s" % (tr["meta"]["prog"], err[:60]),
                                  "real execution rejected by SolverTrace.tla at event %d/%d: %s" % (consumed, total, err),
                                  {"kind": "program-run", "meta": tr["meta"], "program": next(p for p in allp if p["id"] == tr["meta"]["prog"]) if False else None,
                                   "prog_id": tr["meta"]["prog"], "seed": sd})
        jw = common.mkwork()
        try:
            jres, jt = judge(jw, allp, obs)
        finally:
            common.rmwork(jw)
        col = JUDGE_COL[pid]
        byid = {t["tid"]: t for t in traces}
        for oid, msgs in jres.items():
            if msgs[col] and pid != "C05":   # C05 is decided by comparing runs with each other, below
                rep.violation("judge:prog%d:%s" % (byid[oid]["meta"]["prog"], msgs[col][:60]), msgs[col],
                              {"kind": "program-run", "meta": byid[oid]["meta"], "seed": sd})
        if pid == "C03":
            dobs, dmetas = default_section_runs(allp, rng)
            if dobs:
                jw = common.mkwork()
                try:
                    dres, _jt = judge(jw, allp, dobs)
                finally:
                    common.rmwork(jw)
                for oid, msgs in dres.items():
                    if msgs[col]:
                        rep.violation("judge-default-section:prog%d:%s" % (dmetas[oid]["prog"], msgs[col][:60]), msgs[col],
                                      {"kind": "program-run", "meta": dmetas[oid], "seed": sd})
            cov["runs_with_a_DEFAULT_section_judged_for_fixed_point"] = len(dobs)
        # C05: identical result for identical (program, requested forms, supplied inputs)
        ngroups = 0
        if pid == "C05":
            for key, members in groups.items():
                canons = set(c for _, c in members)
                if len(members) > 1:
                    ngroups += 1
                if len(canons) > 1:
                    rep.violation("runs:prog%d:result differs between runs with the same inputs" % key[0],
                                  "results: %s" % list(canons)[:2], {"kind": "program-runs", "metas": [byid[t]["meta"] for t, _ in members]})
            cov["equal_input_groups_compared"] = ngroups
            # an input FILE that gives one key twice with different values, the two occurrences in either order: whatever the
            # program does with such a file (it refuses it), it must not depend on the order
            ndup = 0
            for prog in small[:(15 if tier == "quick" else 120)]:
                x = progs_mod.expand(prog)
                inputs = sorted(x["all_inputs"])
                if not inputs:
                    continue
                forms = progs_mod.build_forms(prog)
                name = rng.choice(inputs)
                sec, opt = name.split(".", 1)
                others = {i: rng.choice(["0", "1"]) for i in inputs if i != name}
                outcomes = []
                for first, second in (("0", "1"), ("1", "0")):
                    for layout in ("two-sections", "one-section"):
                        text = "".join("[%s]\n%s = %s\n" % (i.split(".", 1)[0], i.split(".", 1)[1], v) for i, v in sorted(others.items()) if i.split(".", 1)[0] != sec)
                        same_sec = "".join("%s = %s\n" % (i.split(".", 1)[1], v) for i, v in sorted(others.items()) if i.split(".", 1)[0] == sec)
                        if layout == "two-sections":
                            text += "[%s]\n%s = %s\n%s[%s]\n%s = %s\n" % (sec, opt, first, same_sec, sec, opt, second)
                        else:
                            text += "[%s]\n%s = %s\n%s%s = %s\n" % (sec, opt, first, same_sec, opt, second)
                        wdir = common.mkwork("hv_dup_")
                        try:
                            path = os.path.join(wdir, "dup.habutax")
                            open(path, "w").write(text)
                            try:
                                tr, res, solver = runs.run_traced(forms, path, list(prog["request"]), prog["fieldNames"], user=None, chooser=None, mode="prog",
                                                                  snap="none", tid=0, body=x["body"], max_events=work_bound(x), names=list(x["formOf"].keys()))
                                canon = json.dumps(res if res["abort"] == "" else {"abort": "some"}, sort_keys=True)
                            except Exception as e:     # noqa -- the file is refused before the solve starts
                                canon = "refused:" + type(e).__name__
                        finally:
                            common.rmwork(wdir)
                        outcomes.append((layout, first + second, canon))
                ndup += 1
                for layout in ("two-sections", "one-section"):
                    cs = set(c for (l, _o, c) in outcomes if l == layout)
                    if len(cs) > 1:
                        rep.violation("dupfile:prog%d:result depends on the order of a repeated key in the input file" % prog["id"],
                                      "%s: %s" % (layout, sorted(cs)[:2]), {"kind": "program-file", "prog_id": prog["id"], "key": name, "layout": layout})
            cov["files_with_a_repeated_key_in_both_orders"] = ndup
            # every schedule of the REAL solver (depth-first over the hook's choice points) for the small programs
            nprog = 12 if tier == "quick" else 150
            cap = 150 if tier == "quick" else 3000
            tot, exhausted = 0, 0
            for prog in small[:nprog]:
                x = progs_mod.expand(prog)
                forms = progs_mod.build_forms(prog)
                inputs = sorted(x["all_inputs"])
                for rep_k in range(2):
                    cfg0 = {i: rng.choice(["0", "1"]) for i in inputs if rng.random() < (1.0 if rep_k == 0 else 0.5)}
                    results, n, done = all_schedules(prog, x, forms, cfg0, cap)
                    tot += n
                    exhausted += 1 if done else 0
                    if len(results) > 1:
                        rep.violation("schedules:prog%d:result depends on the attempt order" % prog["id"],
                                      "%d different results over %d schedules: %s" % (len(results), n, list(results)[:2]),
                                      {"kind": "program-schedules", "program": prog, "cfg0": cfg0, "decision_prefixes": list(results.values())[:2]})
            cov["real_schedules_enumerated"] = tot
            cov["program_inputs_with_all_schedules_exhausted"] = exhausted
        cov["traces_validated_against_impl"] = len(traces)
        cov["trace_events"] = sum(len(t["events"]) for t in traces)
        cov["trace_states"] = tstates
        cov["observations_judged"] = len(jres)
        cov["traces_rejected_total"] = len(rejected)
        cov["rejections_attributed_elsewhere"] = sorted(set("%s -> %s" % (owner_of(e), e[:80]) for e in rejected.values() if owner_of(e) != pid))[:20]
        cov["schedules"] = {k: sum(1 for t in traces if t["meta"]["sched"] == k) for k in ("nat", "rnd", "rev")}
        cov["aborting_runs"] = sum(1 for o in obs if o["abort"])
        cov["solved_runs"] = sum(1 for o in obs if o["solved"])
        cov["samples"] = [{"program": allp[0], "run": traces[0]["meta"], "events": [e["ev"] + ":" + e.get("line", e.get("input", "")) for e in traces[0]["events"]][:12]}]
        cov["exhaustive"] = False
        cov["explanation"] = ("TLC explores every attempt order, initial file and user behaviour of %d generated programs (states/transitions above); "
                              "%d real executions of %d programs were accepted step by step by SolverTrace.tla (each step equal to AttemptProg) "
                              "and their results judged against Denote.tla" % (len(small), len(traces), len(allp)))
    finally:
        common.rmwork(work)
    # the same properties on the shipped forms and on the repository's own tests
    import real_checks
    real_checks.run(pid, tier, rep, cov, owner_of)
    if pid == "C06":
        import tracker_checks
        tracker_checks.run(tier, rep, cov)
        import natsort_checks
        natsort_checks.run(tier, cov)
    if pid == "C13":
        import session_checks
        session_checks.c13_sessions(tier, rep, cov)
    assumptions = ["generated programs are a seeded sample, not all programs; values are 0/1",
                   "the tracer observes the solver through wrappers on its methods (harness/tracer.py)",
                   "natural order of names computed by harness/natsort.py (checked against NatSort.tla and the real sort_keys in the C06 run)"]
    return rep, "model_checking", cov, assumptions
