"""The natural order of names (NatSort.tla) against the real habutax.solver.sort_keys and against harness/natsort.py,
which computes the `rank` constant of the solver specification.  No listed property fixes the order of attempts, so a
disagreement of the IMPLEMENTATION is recorded in the evidence and never alarmed on; a disagreement of natsort.py is a
failure of the machinery (the specification's constant would be wrong)."""
import itertools
import json
import os
import random
import re

import common
import natsort

ADVERSARIAL = ["1", "1a", "2", "10", "01", "001", "1_a", "1-a", "a1", "a", "A", "b:1", "b1", "w-2:0.box_1", "w-2:10.box_1", "w-2:2.box_1",
               "w-2:2.box_12a", "w-2:2.box_12b_code", "é1", "1é", "", "_", "a_b", "ab", "a b", "10a", "9z", "1z", "1aa", "1ab", "2a", "2_a", "2-a",
               "1040.1", "1040.1a", "1040.10", "1040.2", "1040_s1.1", "1040_s2.1", "1040_sa.1", "1040_s8812.1", "8889:you.2", "8889:spouse.2",
               "8889:you.13", "nc_d-400.10a", "nc_d-400.10b", "nc_d-400.9", "a.1", "a.01", "a.1b", "a.1-b", "a.99", "z.1", "b:0.2", "b:1.2", "b:10.2",
               "a.x", "a.y", "1040.filing_status", "1040.first_name", "x1y2", "x1y10", "x01y2", "12345678901234567890", "12345678901234567891", "99999999999999999999"]


def sign(x):
    return -1 if x < 0 else (1 if x > 0 else 0)


def cmp_keys(ka, kb):
    return -1 if ka < kb else (1 if ka > kb else 0)


def run(tier, cov):
    import habutax.forms as F
    from habutax.solver import sort_keys
    rng = random.Random(7 + common.seed())
    real = set()
    for year in sorted(F.available_forms):
        for cls in F.available_forms[year]:
            insts = list(getattr(cls, "valid_instances", [])) or [None]
            for inst in insts[:2]:
                try:
                    f = cls(instance=inst)
                except Exception:      # noqa
                    try:
                        f = cls(instance="0")
                    except Exception:  # noqa
                        continue
                real.update(x.name() for x in f.fields())
                real.update(x.name() for x in f.inputs())
    real = sorted(real)
    names = list(ADVERSARIAL) + rng.sample(real, min(len(real), 120 if tier == "quick" else 500))
    names = [n for n in dict.fromkeys(names) if n.count(".") <= 1]
    pairs = []
    idx = list(range(len(names)))
    allp = list(itertools.combinations(idx, 2))
    if len(allp) > (6000 if tier == "quick" else 60000):
        keep = set(itertools.combinations(range(len(ADVERSARIAL)), 2))
        allp = sorted(keep | set(rng.sample(allp, 6000 if tier == "quick" else 60000)))
    for a, b in allp:
        pairs.append({"a": a + 1, "b": b + 1, "impl": cmp_keys(sort_keys(names[a]), sort_keys(names[b])),
                      "mine": cmp_keys(natsort.key(names[a]), natsort.key(names[b]))})

    def parts(n):
        f, l = (n.split(".", 1) if "." in n else ("", n))
        return {"f": [ord(c) for c in f], "l": [ord(c) for c in l]}
    work = common.mkwork()
    try:
        path = os.path.join(work, "ns.json")
        json.dump({"names": [parts(n) for n in names], "pairs": pairs}, open(path, "w"))
        cfgp = os.path.join(work, "ns.cfg")
        open(cfgp, "w").write("SPECIFICATION Spec\nCHECK_DEADLOCK FALSE\n")
        res = common.run_tlc(os.path.join(common.SPEC, "NatSort.tla"), cfgp, cwd=work, workers=1, env={"HV_NS_FILE": path}, timeout=1800, heap="4g")
    finally:
        common.rmwork(work)
    if res.rc != 0 or res.distinct != len(pairs) + 1:
        raise common.MachineryError("NatSort.tla failed (rc=%s, %s states for %d pairs)\n%s" % (res.rc, res.distinct, len(pairs), res.error_excerpt(30)))
    impl_bad, mine_bad = [], []
    for m in re.finditer(r'^"NS\|(impl|mine)\|(\d+)\|(\d+)\|(-?\d+)\|(-?\d+)\|"$', res.out, re.M):
        rec = (names[int(m.group(2)) - 1], names[int(m.group(3)) - 1], int(m.group(4)), int(m.group(5)))
        (impl_bad if m.group(1) == "impl" else mine_bad).append(rec)
    if mine_bad:
        raise common.MachineryError("harness/natsort.py disagrees with NatSort.tla on %d pairs, e.g. %r" % (len(mine_bad), mine_bad[:3]))
    cov["natural_order_names"] = len(names)
    cov["natural_order_pairs_compared"] = len(pairs)
    cov["natural_order_pairs_where_sort_keys_differs_from_NatSort"] = len(impl_bad)
    if impl_bad:
        cov["natural_order_differences"] = [list(x) for x in impl_bad[:10]]
