#!/bin/sh
# offline setup: parse every specification module and byte-compile the harness
set -e
cd "$(dirname "$0")"
mkdir -p spec/gen evidence replays
if [ ! -f spec/gen/GenProgs.tla ]; then
  PYTHONPATH=harness:/repo /venv/bin/python -c "import progs; progs.emit_module(progs.generate(8, 1), 'spec/gen/GenProgs.tla')"
fi
for m in spec/*.tla; do
  out=$(cd spec && java -DTLA-Library=/verif/spec:/verif/spec/gen -cp /opt/veriftools/tla/tla2tools.jar:/opt/veriftools/tla/CommunityModules-deps.jar tla2sany.SANY "$(basename $m)" 2>&1) || { echo "$out"; exit 1; }
  echo "$out" | grep -q "Semantic errors\|Parse Error\|Fatal" && { echo "$out"; exit 1; }
done
for m in spec/apalache/TrackerApa.tla spec/apalache/TrackerApaEq.tla; do
  out=$(cd spec/apalache && java -DTLA-Library=/verif/spec/apalache/tlcstub:/verif/spec:/verif/spec/gen -cp /opt/veriftools/tla/tla2tools.jar:/opt/veriftools/tla/CommunityModules-deps.jar tla2sany.SANY "$(basename $m)" 2>&1) || { echo "$out"; exit 1; }
  echo "$out" | grep -q "Semantic errors\|Parse Error\|Fatal" && { echo "$out"; exit 1; }
done
/venv/bin/python -m compileall -q harness >/dev/null
echo setup ok
